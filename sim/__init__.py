"""Deterministic simulation with fault injection for cobyqa (see /verif/DESIGN.md)."""
