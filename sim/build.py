"""Turn a materialised statement (plain JSON data) into a real minimize() call."""
import copy

import numpy as np
from scipy.optimize import Bounds, LinearConstraint, NonlinearConstraint

from .peers import make_objective, make_constraint_fun, make_callback, make_jacobian


def _arr(v):
    return np.array(v, dtype=float)


def build_bounds(spec):
    if spec is None:
        return None
    lb, ub = _arr(spec["lb"]), _arr(spec["ub"])
    if spec.get("form", "Bounds") == "Bounds":
        return Bounds(lb, ub)
    if spec["form"] == "list":
        return [[a, b] for a, b in zip(lb.tolist(), ub.tolist())]
    return np.column_stack([lb, ub])


def build_linear(spec):
    A = np.array(spec["A"], dtype=float).reshape(len(spec["A"]), -1)
    lb = spec["lb"]
    ub = spec["ub"]
    lb = float(lb) if not isinstance(lb, list) else _arr(lb)
    ub = float(ub) if not isinstance(ub, list) else _arr(ub)
    return LinearConstraint(A, lb, ub)


def build_nonlinear(ctx, j, spec, shared=False):
    fun = make_constraint_fun(ctx, j, spec, shared=shared)
    form = spec.get("form", "nlc")
    if form == "dict":
        d = {"type": spec["type"], "fun": fun}
        if spec.get("args") is not None:
            d["args"] = tuple(spec["args"])
        return d
    lb = spec["lb"]
    ub = spec["ub"]
    lb = float(lb) if not isinstance(lb, list) else _arr(lb)
    ub = float(ub) if not isinstance(ub, list) else _arr(ub)
    if spec.get("jac"):
        return NonlinearConstraint(fun, lb, ub, jac=make_jacobian(ctx, j, spec))
    return NonlinearConstraint(fun, lb, ub)


class Call:
    """The arguments of one minimize() call, plus snapshots for C11.b."""

    def __init__(self, ctx, stmt, shared=None):
        self.ctx = ctx
        self.stmt = stmt
        shared = shared or {}
        self.fun = make_objective(ctx, stmt.get("obj"))
        x0 = stmt["x0"]
        x0_form = stmt.get("x0_form", "list")
        if x0_form == "ndarray":
            self.x0 = np.array(x0, dtype=float)
        elif x0_form == "tuple":
            self.x0 = tuple(x0)
        else:
            self.x0 = list(x0)
        obj = stmt.get("obj")
        self.args = tuple(obj["args"]) if obj and obj.get("args") is not None else ()
        key = stmt.get("share_bounds")
        if key is not None and key in shared:
            self.bounds = shared[key]
        else:
            self.bounds = build_bounds(stmt.get("bounds"))
            if key is not None:
                shared[key] = self.bounds
        cons = []
        for k, ls in enumerate(stmt.get("linear") or []):
            skey = ls.get("share")
            if skey is not None and skey in shared:
                cons.append((ls.get("pos", k), shared[skey]))
            else:
                obj_ = build_linear(ls)
                if skey is not None:
                    shared[skey] = obj_
                cons.append((ls.get("pos", k), obj_))
        nlin = len(cons)
        for j, ns in enumerate(stmt.get("nonlinear") or []):
            skey = ns.get("share")
            if skey is not None and skey in shared:
                cons.append((ns.get("pos", nlin + j), shared[skey]))
            else:
                obj_ = build_nonlinear(ctx, j, ns, shared=skey is not None)
                if skey is not None:
                    shared[skey] = obj_
                cons.append((ns.get("pos", nlin + j), obj_))
        cons.sort(key=lambda t: t[0])
        cons = [c for _, c in cons]
        cform = stmt.get("constraints_form", "list")
        if cform == "single" and len(cons) == 1:
            self.constraints = cons[0]
        elif cform == "tuple":
            self.constraints = tuple(cons)
        else:
            self.constraints = cons
        self.callback = make_callback(ctx, stmt.get("callback"))
        okey = stmt.get("share_options")
        if okey is not None and okey in shared:
            self.options = shared[okey]
        else:
            self.options = copy.deepcopy(stmt.get("options")) if stmt.get("options") is not None else None
            enc = stmt.get("options_numpy")
            if enc and self.options:
                for k in list(self.options):
                    v = self.options[k]
                    if isinstance(v, bool):
                        continue
                    if isinstance(v, float):
                        self.options[k] = np.float64(v) if enc == "scalar" else np.array(v, dtype=float)
                    elif isinstance(v, int):
                        self.options[k] = np.int64(v) if enc == "scalar" else np.array(v)
            if okey is not None:
                shared[okey] = self.options
        self.constants = dict(stmt.get("constants") or {})

    def kwargs(self):
        kw = dict(args=self.args, bounds=self.bounds, constraints=self.constraints,
                  callback=self.callback, options=self.options)
        kw.update(self.constants)
        return kw

    # -- C11.b: deep snapshot of everything the user passed in ------------
    def snapshot(self):
        def snap(o):
            if isinstance(o, np.ndarray):
                return ("nd", o.dtype.str, o.shape, o.tobytes())
            if isinstance(o, (list, tuple)):
                return (type(o).__name__, tuple(snap(v) for v in o))
            if isinstance(o, dict):
                return ("dict", tuple((k, snap(o[k])) for k in o))
            if isinstance(o, Bounds):
                return ("Bounds", snap(o.lb), snap(o.ub), snap(o.keep_feasible), tuple(sorted(vars(o))))
            if isinstance(o, LinearConstraint):
                return ("LC", snap(o.A), snap(o.lb), snap(o.ub), snap(o.keep_feasible), tuple(sorted(vars(o))))
            if isinstance(o, NonlinearConstraint):
                return ("NLC", id(o.fun), snap(o.lb), snap(o.ub), repr(o.jac), repr(o.hess),
                        snap(o.keep_feasible), repr(o.finite_diff_rel_step),
                        repr(o.finite_diff_jac_sparsity), tuple(sorted(vars(o))))
            if callable(o):
                return ("callable", id(o))
            if isinstance(o, float):
                return ("f", o.hex() if o == o else "nan")
            return (type(o).__name__, repr(o))

        return {
            "x0": snap(self.x0),
            "args": snap(self.args),
            "bounds": snap(self.bounds),
            "constraints": snap(self.constraints),
            "options": snap(self.options),
        }
