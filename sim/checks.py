"""Registry of checks: one per claimed property (plus self-tests)."""
import functools

from . import engines

RULE_WORLD = ("cases are seeded worlds (statement + fault plan) run against real cobyqa.minimize; a world is "
              "non-trivial if it went past the first evaluation and, when a fault plan is present, at least one "
              "fault fired; distinct = distinct coverage signature (objective?, bounds?, linear?, nonlinear forms, "
              "scale, fixed variables, callback style, step kinds reached, fault kinds fired, exit status)")

ASSUME = ["numpy/scipy behave deterministically with single-threaded BLAS",
          "peers are deterministic functions of (point, evaluation index, fault plan)",
          "probes bind to current internal method names; clauses needing a missing probe are reported as not evaluated"]


def _faulted(prop):
    return functools.partial(engines.faulted_case, prop)


def _cut(prop):
    return functools.partial(engines.cut_case, prop)


CHECKS = {}


def reg(name, prop, case, level, cases, rule=RULE_WORLD, **kw):
    d = {"property": prop, "case": case, "level": level, "cases": cases, "rule": rule, "assumptions": ASSUME}
    d.update(kw)
    CHECKS[name] = d


reg("C01", "C01", _faulted("C01"), "exploration", {"quick": 3000, "thorough": 70000},
    reach=["c01.d_kind_soc", "c01.d_kind_geo"])
reg("C02", "C02", _faulted("C02"), "exploration", {"quick": 4000, "thorough": 120000})
reg("C06", "C06", _faulted("C06"), "exploration", {"quick": 4000, "thorough": 100000})
reg("C07", "C07", _faulted("C07"), "exploration", {"quick": 6000, "thorough": 150000})
def _c08_on_timeout(seed, idx, tier):
    """A case hit the wall-clock watchdog: decide by counting steps (replayable), not by the clock."""
    return engines.faulted_case("C08", seed, idx, tier, step_cap=engines.STEP_CAP)


reg("C08", "C08", _faulted("C08"), "exploration", {"quick": 3000, "thorough": 50000},
    on_timeout=_c08_on_timeout, case_timeout=600,
    rule=RULE_WORLD + "; in addition, for one statement in 16 every reply-fault kind (NaN, +inf, -inf, 1e300) is "
    "injected at EVERY evaluation index, one at a time (cut_points_enumerated), and one world in 32 runs under a "
    "line-counting tracer with a cap of 5e6 cobyqa source lines between consecutive peer events (bounded progress)")
reg("C05", "C05", _cut("C05"), "fault_enumeration", {"quick": 240, "thorough": 6000},
    rule=RULE_WORLD + "; for each sampled statement the budget maxfev=k is injected at EVERY k up to the tier's cap "
    "(and around nb_points) and maxiter=k at several k: cut_points_enumerated counts those runs")
reg("C09", "C09", _cut("C09"), "fault_enumeration", {"quick": 240, "thorough": 7000},
    rule=RULE_WORLD + "; for each sampled statement a stop request (callback StopIteration at call k; target or "
    "feasibility tolerance first met at evaluation k) is injected at EVERY evaluation index k up to the tier's cap")
reg("C20", "C20", _cut("C20"), "fault_enumeration", {"quick": 160, "thorough": 2500}, isolate=True, case_timeout=400,
    rule=RULE_WORLD + "; counterfactual branching: for EVERY callback call k of the baseline the same world is re-run "
    "with StopIteration raised at call k and the result compared with what call k received")
