"""Checks served by the component machines, paired worlds and threaded worlds."""
from .checks import reg, ASSUME, RULE_WORLD
from . import engines


def _c03(seed, idx, tier):
    """Even cases: 25 filter-machine histories; odd cases: one faulted world."""
    from .machines import filter as fm
    if idx % 2 == 0:
        return fm.filter_case(seed, idx, tier)
    return engines.faulted_case("C03", seed, idx, tier)


reg("C03", "C03", _c03, "exploration", {"quick": 3000, "thorough": 100000},
    rule="even cases: 25 seeded reply histories each (length 1-40; lattice of objective/constraint replies forcing "
         "ties, the feasibility tolerance exactly and one ulp above, NaN, +inf, -inf; penalties 0, 2^-20, 1, 2^20; "
         "filter sizes 1,2,3,5,unbounded) fed to a real Problem, best_eval compared with a plain-list reference after "
         "every reply; odd cases: " + RULE_WORLD + ". evaluations counts histories + worlds; distinct = distinct "
         "(length, filter size, tolerance, kinds of non-finite replies) resp. world signatures",
    stubs=["objective and constraint functions (scripted replies)", "callback"])


def _c12(seed, idx, tier):
    """Even cases: 6 models-machine histories; odd cases: one faulted world with the in-run probe clauses."""
    from .machines import models as mm
    if idx % 2 == 0:
        return mm.models_case(seed, idx, tier)
    return engines.faulted_case("C12", seed, idx, tier)


reg("C12", "C12", _c12, "exploration", {"quick": 2400, "thorough": 80000},
    rule="even cases: 6 seeded operation histories each (n 1-5, every admissible nb_points, up to 60 ops: replace by "
         "random / near-duplicate / duplicate / collinear / far points, base shifts, resets; barrier-magnitude and NaN "
         "replies and eigh failures as faults; 60 % with twin constraints c == f) on a real Models object, oracles after "
         "every op; odd cases: " + RULE_WORLD + " with the same clauses probed after every update/shift/reset of the "
         "real run. distinct = distinct (n, nb_points, twin, poised, #constraints, family, op kinds, faults) resp. world "
         "signatures",
    reach=["models.ops_ill_conditioned", "models.ops_shift", "models.ops_reset", "c12.ops_update"])


def _c18(seed, idx, tier):
    """Even cases: 12 radius-machine histories; odd cases: one faulted world with the per-iteration probe clauses."""
    from .machines import radius as rm
    if idx % 2 == 0:
        return rm.radius_case(seed, idx, tier)
    return engines.faulted_case("C18", seed, idx, tier)


reg("C18", "C18", _c18, "exploration", {"quick": 4000, "thorough": 150000},
    rule="even cases: 12 seeded histories each (radii over 30 decades, radius_final = 0 / = radius_init, constants drawn "
         "inside their documented intervals, up to 200 ops: update_radius with ratios at the thresholds +-1 ulp and step "
         "norms over 12 decades, short-step shrink, enhance_resolution) on a real TrustRegion, invariants after every op; "
         "odd cases: " + RULE_WORLD + " with radius/resolution/penalty/centre invariants probed at every iteration. "
         "distinct = distinct (decade of radius_init, decade of the ratio, constants supplied, length bucket) resp. world "
         "signatures",
    reach=["c18.iters", "c18.e_checked", "c18.f_checked", "radius.ops_enhance"])


def _c10(seed, idx, tier):
    from . import pairs
    return pairs.c10_case(seed, idx, tier)


reg("C10", "C10", _c10, "exploration", {"quick": 3000, "thorough": 90000},
    rule="even cases: a seeded statement and one applicable syntactic restatement of it (bounds form, dict vs "
         "NonlinearConstraint, two-sided vs two one-sided, regrouping rows) run under one fault plan, traces compared "
         "bitwise; odd cases: a statement with fixed variables and/or scale=True: faithfulness of the solver's internal "
         "linear data at 20 random points + the explicitly restated problem built from the solver's own internal arrays "
         "must give a bitwise identical trace and result. evaluations counts worlds (2-3 per pair); distinct = distinct "
         "world signatures",
    reach=["c10.pairs_split_linear", "c10.pairs_split_nonlinear", "c10.pairs_dict_vs_nlc", "c10.pairs_regroup_linear",
           "c10.semantic_scale", "c10.semantic_fixed", "c10.semantic_scale+fixed"])


def _c11(seed, idx, tier):
    from . import conc
    return conc.c11_case(seed, idx, tier)


reg("C11", "C11", _c11, "exploration", {"quick": 240, "thorough": 4000},
    rule="cases cycle through: (0) repetition A, B, A' in one process + argument snapshots on forced endings; (1) nested "
         "minimize calls from the outer objective / callback; (2,3) threaded worlds: 2-16 clients with different "
         "statements (30 % sharing Bounds / LinearConstraint / options objects), real threads released one at a time by a "
         "seeded baton scheduler with pre-emption at every cobyqa source line and every peer call; strategies sequential, "
         "seam-only, quanta, pct, location-uniform, write-set-guided; every client compared bit for bit with its "
         "sequential baseline. evaluations counts minimize runs + threaded worlds; distinct = distinct world signatures "
         "resp. (threads, strategy, #switches, switch locations)",
    stubs=["objective function", "constraint functions", "callback", "sys.stdout (StringIO)",
           "thread scheduling (seeded baton scheduler; real threading.Thread objects)"],
    budget_s={"quick": 600, "thorough": 3300}, det_n=4, isolate=True, case_timeout=400)
