"""Command line: ./check <check> [--tier quick|thorough] [--seed N] | --replay <file>"""
import argparse
import json
import os
import sys

HERE = os.path.dirname(os.path.abspath(__file__))
VERIF = os.path.dirname(HERE)


def _reexec_if_needed():
    want = {"PYTHONHASHSEED": os.environ.get("PYTHONHASHSEED", "0"), "OPENBLAS_NUM_THREADS": "1",
            "OMP_NUM_THREADS": "1", "MKL_NUM_THREADS": "1", "PYTHONDONTWRITEBYTECODE": "1"}
    if os.environ.get("PYTHONHASHSEED") is None or any(os.environ.get(k) != v for k, v in want.items()):
        env = dict(os.environ)
        env.update(want)
        os.execve(sys.executable, [sys.executable] + sys.argv, env)


def main():
    _reexec_if_needed()
    if VERIF not in sys.path:
        sys.path.insert(0, VERIF)
    ap = argparse.ArgumentParser()
    ap.add_argument("check", nargs="?")
    ap.add_argument("--tier", default=os.environ.get("VERIF_TIER", "quick"), choices=["quick", "thorough"])
    ap.add_argument("--seed", type=int, default=None)
    ap.add_argument("--replay")
    ap.add_argument("--quiet", action="store_true")
    ap.add_argument("--cases", type=int, default=None)
    ap.add_argument("--workers", type=int, default=None)
    ap.add_argument("--digest-cases")
    ap.add_argument("--list", action="store_true")
    a = ap.parse_args()
    seed = a.seed if a.seed is not None else int(os.environ.get("VERIF_SEED", "20260923"))
    if a.replay:
        return replay(a.replay, a.quiet)
    from sim import checks
    load_all()
    if a.list:
        for k in checks.CHECKS:
            print(k)
        return 0
    if a.check in ("selftest-determinism", "selftest-mutants"):
        from sim import selftest
        return selftest.main(a.check, seed, a.tier)
    if a.check not in checks.CHECKS:
        print("unknown check %r" % a.check, file=sys.stderr)
        return 2
    if a.digest_cases:
        from sim import runner
        spec = checks.CHECKS[a.check]
        out = {}
        for idx in [int(v) for v in a.digest_cases.split(",")]:
            cr = spec["case"](seed, idx, a.tier)
            out[str(idx)] = runner.pack_case(idx, cr)["digest"]
        print(json.dumps(out))
        return 0
    from sim import runner
    print("VERIF_SEED=%d check=%s tier=%s" % (seed, a.check, a.tier))
    return runner.run_check(a.check, a.tier, seed, workers=a.workers, cases=a.cases, quiet=a.quiet)


def load_all():
    """Import every module that registers checks."""
    for mod in ("sim.checks", "sim.checks_ext"):
        try:
            __import__(mod)
        except ModuleNotFoundError as e:
            if mod.split(".")[-1] not in str(e):
                raise


def replay(path, quiet):
    if VERIF not in sys.path:
        sys.path.insert(0, VERIF)
    with open(path) as f:
        p = json.load(f)
    load_all()
    from sim.engines import replay_payload
    vs = replay_payload(p)
    exp = p.get("expect")
    hit = [v for v in vs if exp is None or (v.prop == exp["prop"] and v.clause == exp["clause"] and v.key == exp["key"])]
    if hit:
        if not quiet:
            for v in hit:
                print("  %s.%s [%s]: %s" % (v.prop, v.clause, v.key, v.msg))
        print("VIOLATION property=%s replay=%s" % (p.get("property", hit[0].prop), path))
        return 1
    if not quiet:
        print("replay %s: the recorded violation no longer reproduces (%d other findings)" % (path, len(vs)))
    return 0


if __name__ == "__main__":
    sys.exit(main())
