"""C11 - determinism, arguments untouched, re-entrancy and thread safety.

a. repetition: a world run twice (and with other calls in between) gives identical digests;
b. arguments untouched: deep snapshots before / after, on every forced ending;
c. nested calls: an objective / callback that itself calls minimize;
d. concurrent calls: 2..16 clients with *different* statements, some sharing user
   objects, under a seeded baton scheduler (sched.py); every client must be
   bit-identical to its own sequential baseline.
"""
import contextlib
import copy
import io
import math
import types
import warnings
from collections import Counter

import numpy as np

from .rng import Rng
from . import scenario
from .scenario import profile
from .world import World, run_client
from .engines import CaseResult, PROFILES, force_ending, _nevals
from .oracles.common import Viol
from .oracles import worldprops as W
from .sched import Sched, BIG, SchedError

PROF = profile(p_callback=0.4, p_inconsistent=0.02, p_all_fixed=0.02, maxfev_hi=50, p_disp=0.05, p_nonlinear=0.5,
               p_linear=0.4, n_weights=[(3, 1), (5, 2), (3, 3), (1, 4)], p_no_options=0.3, p_narrow_box=0.3)


# ---------------------------------------------------------------------------
# persistent shared state snapshot (write-set discovery)
# ---------------------------------------------------------------------------
def _fingerprint(o, depth=0, seen=None):
    seen = seen if seen is not None else set()
    if id(o) in seen or depth > 4:
        return "..."
    if isinstance(o, (int, float, str, bool, bytes, type(None), complex)):
        return repr(o)
    if isinstance(o, np.ndarray):
        return ("nd", o.shape, o.dtype.str, o.tobytes() if o.size < 10000 else len(o.tobytes()))
    if isinstance(o, (np.generic,)):
        return repr(o)
    seen.add(id(o))
    if isinstance(o, dict):
        return ("dict", tuple((repr(k), _fingerprint(v, depth + 1, seen)) for k, v in list(o.items())[:200]))
    if isinstance(o, (list, tuple)):
        return (type(o).__name__, tuple(_fingerprint(v, depth + 1, seen) for v in list(o)[:200]))
    if isinstance(o, (set, frozenset)):
        return ("set", tuple(sorted(repr(v) for v in o)))
    if hasattr(o, "cache_info") and callable(getattr(o, "cache_info")):
        try:
            return ("cache", tuple(o.cache_info()))
        except Exception:
            return "cache?"
    if isinstance(o, (types.FunctionType, types.BuiltinFunctionType, types.MethodType, type, types.ModuleType)):
        return "callable"
    d = getattr(o, "__dict__", None)
    if isinstance(d, dict):
        return (type(o).__name__, _fingerprint(d, depth + 1, seen))
    return type(o).__name__


def shared_state_snapshot():
    """Every non-callable value reachable from module dicts and class dicts of cobyqa.* modules, function
    defaults / kwdefaults / closure cells of their functions and methods, functools cache statistics."""
    import sys
    snap = {}
    for name, mod in sorted(sys.modules.items()):
        if not (name == "cobyqa" or name.startswith("cobyqa.")) or mod is None:
            continue
        for k, v in sorted(vars(mod).items()):
            if k.startswith("__") and k.endswith("__"):
                continue
            if isinstance(v, types.ModuleType):
                continue
            if isinstance(v, type):
                if getattr(v, "__module__", "") != name:
                    continue
                for ck, cv in sorted(vars(v).items()):
                    if ck.startswith("__") and ck.endswith("__") and ck not in ("__init__", "__call__"):
                        continue
                    f = cv
                    f = getattr(f, "__wrapped__", f)
                    if isinstance(f, (staticmethod, classmethod)):
                        f = f.__func__
                    if isinstance(f, types.FunctionType):
                        snap["%s.%s.%s:defaults" % (name, k, ck)] = _fingerprint((f.__defaults__, f.__kwdefaults__))
                    elif not callable(cv) and not isinstance(cv, property):
                        snap["%s.%s.%s" % (name, k, ck)] = _fingerprint(cv)
            elif isinstance(v, types.FunctionType):
                if getattr(v, "__module__", "") != name and not hasattr(v, "__wrapped__"):
                    continue
                f = getattr(v, "__wrapped__", v)
                cells = ()
                if isinstance(f, types.FunctionType) and f.__closure__:
                    cells = tuple(_fingerprint(c.cell_contents) if _cell_ok(c) else "?" for c in f.__closure__)
                if isinstance(f, types.FunctionType):
                    snap["%s.%s:defaults" % (name, k)] = _fingerprint((f.__defaults__, f.__kwdefaults__, cells))
                if hasattr(v, "cache_info"):
                    snap["%s.%s:cache" % (name, k)] = _fingerprint(v)
            elif hasattr(v, "cache_info") and callable(v):
                snap["%s.%s:cache" % (name, k)] = _fingerprint(v)
            elif not callable(v):
                snap["%s.%s" % (name, k)] = _fingerprint(v)
    return snap


def _cell_ok(c):
    try:
        c.cell_contents
        return True
    except ValueError:
        return False


def snapshot_diff(a, b):
    return sorted(k for k in set(a) | set(b) if a.get(k) != b.get(k))


# ---------------------------------------------------------------------------
# worlds
# ---------------------------------------------------------------------------
def gen_world(rng, nclients=None):
    n = nclients or rng.wpick([(6, 2), (5, 3), (3, 4), (1, 6), (0.5, 8), (0.3, 16)])
    clients = []
    for c in range(n):
        if clients and rng.chance(0.3):
            # same statement *objects* (bounds / linear constraints / options), different x0
            src = rng.pick(clients)
            s = copy.deepcopy(src)
            key = "w%d" % clients.index(src)
            if src.get("bounds") is not None and src["bounds"].get("form") == "Bounds":
                src["share_bounds"] = s["share_bounds"] = key + "b"
            for k, ls in enumerate(src.get("linear") or []):
                ls["share"] = s["linear"][k]["share"] = key + "l%d" % k
            for k, ns in enumerate(src.get("nonlinear") or []):
                if rng.chance(0.6):
                    ns["share"] = s["nonlinear"][k]["share"] = key + "n%d" % k
            if src.get("options") is not None:
                src["share_options"] = s["share_options"] = key + "o"
            s["x0"] = [v + rng.pick([0.25, -0.5, 1.0]) for v in s["x0"]]
            if s.get("callback"):
                s["callback"]["stop_at"] = None
        else:
            s = scenario.gen_statement(rng, PROF)
        o = s.get("options")
        if o is not None:
            o.pop("disp", None)
        clients.append(s)
    faults = []
    for s in clients:
        faults.append(scenario.gen_fault_plan(rng, s, 12, 0, level=rng.wpick([(6, 0), (3, 1), (1, 2)]), allow_linalg=False)
                      if rng.chance(0.4) else [])
    return {"clients": clients, "faults": faults}


def run_solo(world_spec, c, traced=False, record_locations=False, watch=None):
    """Sequential baseline of client c (optionally under the tracer, alone)."""
    w = World()
    shared = {}
    _prebuild_shared(world_spec, w)
    if not traced:
        return run_client(world_spec["clients"][c], world_spec["faults"][c], world=w, cid=c, capture=True), None
    n = len(world_spec["clients"])
    sched = Sched(n, [[c, BIG]], record_locations=record_locations, watch=watch)
    w.sched = sched
    out = {}

    def body():
        out["rec"] = run_client(world_spec["clients"][c], world_spec["faults"][c], world=w, cid=c, capture=False)
        return out["rec"]

    bodies = [(body if k == c else (lambda: None)) for k in range(n)]
    with _capture():
        sched.run(bodies)
    return out["rec"], sched


def _prebuild_shared(world_spec, w):
    """Shared user objects are created once per world, before any client runs."""
    from .build import build_bounds, build_linear
    for s in world_spec["clients"]:
        k = s.get("share_bounds")
        if k is not None and k not in w.shared:
            w.shared[k] = build_bounds(s["bounds"])
        for ls in s.get("linear") or []:
            k = ls.get("share")
            if k is not None and k not in w.shared:
                w.shared[k] = build_linear(ls)
        k = s.get("share_options")
        if k is not None and k not in w.shared:
            w.shared[k] = copy.deepcopy(s.get("options"))


@contextlib.contextmanager
def _capture():
    out = io.StringIO()
    with contextlib.redirect_stdout(out), warnings.catch_warnings(record=True):
        warnings.simplefilter("always")
        yield out


def run_threaded(world_spec, segments, timeout=300.0):
    n = len(world_spec["clients"])
    w = World()
    _prebuild_shared(world_spec, w)
    sched = Sched(n, segments)
    w.sched = sched
    recs = [None] * n

    def mk(c):
        def body():
            recs[c] = run_client(world_spec["clients"][c], world_spec["faults"][c], world=w, cid=c, capture=False)
            return recs[c]
        return body

    with _capture():
        sched.run([mk(c) for c in range(n)], timeout=timeout)
    return recs, sched


# ---------------------------------------------------------------------------
# schedule generators (segments) from the solo baselines
# ---------------------------------------------------------------------------
def weave(rng, N, cuts):
    n = len(N)
    pos = [0] * n
    segs = []
    cur = rng.randrange(n)
    guard = 0
    while any(pos[c] < N[c] for c in range(n)) and guard < 100000:
        guard += 1
        if pos[cur] >= N[cur]:
            cur = rng.pick([c for c in range(n) if pos[c] < N[c]])
            continue
        nxt = next((k for k in cuts[cur] if k > pos[cur]), None)
        if nxt is None or nxt >= N[cur]:
            segs.append([cur, BIG])
            pos[cur] = N[cur]
        else:
            segs.append([cur, nxt - pos[cur]])
            pos[cur] = nxt
        others = [c for c in range(n) if c != cur and pos[c] < N[c]]
        if others:
            cur = rng.pick(others)
    return segs


def gen_segments(rng, strategy, N, locs, writer_ids):
    n = len(N)
    if strategy == "sequential":
        return [[c, BIG] for c in range(n)]
    if strategy == "quanta":
        cuts = []
        for c in range(n):
            ks, p = [], 0
            while p < N[c]:
                p += int(rng.loguniform(1, 3000))
                ks.append(p)
            cuts.append(ks)
        return weave(rng, N, cuts)
    if strategy == "pct":
        d = rng.randint(1, 3)
        cuts = [[] for _ in range(n)]
        for _ in range(d):
            c = rng.randrange(n)
            if N[c] > 1:
                cuts[c].append(rng.randint(1, N[c] - 1))
        return weave(rng, N, [sorted(k) for k in cuts])
    if strategy == "seam":
        cuts = []
        for c in range(n):
            peers = [i + 1 for i, l in enumerate(locs[c]) if l in writer_ids.get("peer_ids", ())]
            ks = sorted(set(rng.pick(peers) for _ in range(rng.randint(1, 6)))) if peers else []
            cuts.append(ks)
        return weave(rng, N, cuts)
    if strategy == "location":
        cuts = []
        for c in range(n):
            ks = []
            if locs[c]:
                distinct = sorted(set(locs[c]))
                for _ in range(rng.randint(1, 5)):
                    L = rng.pick(distinct)
                    occ = [i + 1 for i, l in enumerate(locs[c]) if l == L]
                    ks.append(rng.pick(occ))
            cuts.append(sorted(set(ks)))
        return weave(rng, N, cuts)
    if strategy == "guided":
        W_ids = writer_ids.get("writers", set())
        order = writer_ids.get("writer_order", [])          # writer location ids in source order
        occ = [[i for i, l in enumerate(locs[c]) if l in W_ids] for c in range(n)]
        cands = [c for c in range(n) if occ[c]]
        if not cands or not order:
            return gen_segments(rng, "location", N, locs, writer_ids)
        first, last = order[0], order[-1]
        a = rng.pick(cands)
        others = [c for c in range(n) if c != a]
        b = rng.pick([c for c in others if occ[c]] or others)
        mid = [i for i in occ[a] if locs[a][i] != first] or occ[a]
        eA = rng.pick(mid)                                   # park A in the middle of a multi-statement update
        segs = [[a, eA + 1]]
        lastB = [i for i in occ[b] if locs[b][i] == last]
        if lastB:
            jB = rng.pick(lastB[: max(1, min(len(lastB), 6))])
            segs.append([b, jB + 2])                         # B completes one whole update
        else:
            segs.append([b, BIG])
        jA = next((i for i in occ[a] if i >= eA and locs[a][i] == last), None)
        if jA is not None and rng.chance(0.8):
            segs.append([a, jA + 1 - eA + rng.randint(0, 2)])   # A finishes its update, then B sees the mix
            segs.append([b, BIG])
        else:
            segs.append([a, rng.pick([BIG, rng.randint(1, 50)])])
        segs += gen_segments(rng, "quanta", N, locs, writer_ids)
        return segs
    raise ValueError(strategy)


# ---------------------------------------------------------------------------
# write-set discovery
# ---------------------------------------------------------------------------
def discover_writers(world_spec, c=0):
    """Run client c alone; if the persistent shared state changed, find the lines after which it changed."""
    before = shared_state_snapshot()
    rec, _ = run_solo(world_spec, c)
    after = shared_state_snapshot()
    changed = snapshot_diff(before, after)
    if not changed:
        return {"changed": [], "writers": []}
    state = {"last": shared_state_snapshot(), "writers": set(), "prev": None, "frames": {}}

    def _resolve(path):
        import sys as _sys
        parts = path.split(".")
        for cut in range(len(parts) - 1, 0, -1):
            mod = _sys.modules.get(".".join(parts[:cut]))
            if mod is not None:
                obj = mod
                for a in parts[cut:]:
                    obj = vars(obj)[a] if isinstance(obj, type) else getattr(obj, a)
                return obj
        raise KeyError(path)

    def sub_snapshot():
        out = {}
        full = None
        for k in changed:
            path, _, suffix = k.partition(":")
            try:
                obj = _resolve(path)
                if suffix == "defaults":
                    f = getattr(obj, "__wrapped__", obj)
                    f = getattr(f, "__func__", f)
                    out[k] = _fingerprint((f.__defaults__, f.__kwdefaults__))
                else:
                    out[k] = _fingerprint(obj)
            except Exception:
                if full is None:
                    full = shared_state_snapshot()
                out[k] = full.get(k)
        return out

    budget = {"left": 60000}

    def watch(cl, loc, frame=None):
        # The state is compared at every line event.  A change seen at a line event of frame F was made by
        # the previous statement of F (line events of nested calls in between are not the writer).
        if budget["left"] <= 0:
            return
        budget["left"] -= 1
        cur = sub_snapshot()
        fid = id(frame) if frame is not None else None
        if cur != state["lastsub"]:
            prev = state["frames"].get(fid) if fid is not None else None
            state["writers"].add(prev if prev is not None else state["prev"])
        state["lastsub"] = cur
        state["prev"] = loc
        if fid is not None:
            if len(state["frames"]) > 5000:
                state["frames"].clear()
            state["frames"][fid] = loc

    changed_set = set(changed)
    state["lastsub"] = sub_snapshot()
    try:
        run_solo(world_spec, c, traced=True, watch=watch)
    except SchedError:
        pass
    return {"changed": changed, "writers": sorted(w for w in state["writers"] if w is not None and w[0] != "peer")}


# ---------------------------------------------------------------------------
# engines
# ---------------------------------------------------------------------------
STRATEGIES = [(1, "sequential"), (2, "seam"), (4, "quanta"), (3, "pct"), (4, "location"), (4, "guided")]


def threads_case(seed, idx, tier):
    cr = CaseResult()
    rng = Rng(seed, "C11d", idx)
    spec = gen_world(rng)
    n = len(spec["clients"])
    st = cr.stats
    st["c11.threads_%d" % n] += 1
    # one client may die mid-run (a user function of its raises at a seeded evaluation; own PRNG stream): the
    # crashed client must die exactly as it does alone, and the survivors must not notice
    rk = Rng(seed, "C11d-crash", idx)
    if rk.chance(0.3):
        c = rk.randint(0, n - 1)
        tg = scenario.gen_targets(spec["clients"][c])
        if tg:
            sc = spec["clients"][c]
            spec["faults"][c] = list(spec["faults"][c]) + [{
                "kind": "crash", "target": "obj" if (sc.get("obj") is not None and rk.chance(0.5)) else rk.pick(tg),
                "when": {"at": rk.wpick([(2, 1), (2, sc["n"] + 2), (6, rk.randint(1, 12))])},
                "exc": rk.wpick([(3, "stop"), (3, "runtime"), (1, "lookup"), (1, "arith")])}]
            st["c11.threads_with_crashing_client"] += 1
    # sequential, untraced baselines (the reference every schedule is compared with)
    base = []
    for c in range(n):
        r, _ = run_solo(spec, c)
        cr.account(r)
        if r.harness_error:
            return cr
        base.append(r.digest())
    # traced solo runs: step counts and locations; tracing must not change behaviour
    N, locs = [], []
    peer_ids = set()
    loc_table = {}
    for c in range(n):
        r, s = run_solo(spec, c, traced=True, record_locations=True)
        if r.digest() != base[c]:
            cr.add_viols([Viol("C11", "a", "client %d: a repeated (traced) run differs from the first run" % c,
                               key="repeat_differs")], {"engine": "repeat", "stmt": spec["clients"][c], "faults": spec["faults"][c]})
            return cr
        # make location ids comparable across clients
        inv = {v: k for k, v in s.loc_ids.items()}
        ids = []
        for lid in s.locs[c]:
            loc = inv[lid]
            g = loc_table.setdefault(loc, len(loc_table))
            ids.append(g)
            if loc[0] == "peer":
                peer_ids.add(g)
        N.append(s.count[c])
        locs.append(ids)
    disc = discover_writers(spec, rng.randrange(n))
    if disc["changed"]:
        st["c11.discovery_state_changed"] += 1
    writer_ids = {"peer_ids": peer_ids,
                  "writers": set(loc_table[w] for w in disc["writers"] if w in loc_table),
                  "writer_order": [loc_table[w] for w in sorted(disc["writers"]) if w in loc_table]}
    st["c11.writer_lines_found"] += len(writer_ids["writers"])
    nsched = 2 if tier == "quick" else 4
    for k in range(nsched):
        rs = Rng(seed, "C11d-sched", idx, k)
        strat = rs.wpick(STRATEGIES)
        if k == 0 and writer_ids["writers"]:
            strat = "guided"        # discovery found persistent shared state being written: steer there first
        segs = gen_segments(rs, strat, N, locs, writer_ids)
        try:
            recs, sched = run_threaded(spec, segs)
        except SchedError as e:
            cr.harness_errors.append("sched: %s" % e)
            return cr
        st["c11.strategy_" + strat] += 1
        st["c11.switches"] += sched.switches
        cr.worlds += 1
        cr.events += sum(sched.count)
        cr.sigs.add(("threads", n, strat, min(sched.switches, 50), tuple(sorted(set(l for _, l in sched.switch_locs[:40])))))
        cr.digests.append(tuple(map(tuple, sched.executed[:50])))
        bad = [c for c in range(n) if recs[c] is None or recs[c].digest() != base[c]]
        if bad:
            c = bad[0]
            msg = "client %d of %d differs from its sequential baseline under schedule strategy %s (%d switches)" % (
                c, n, strat, sched.switches)
            cr.add_viols([Viol("C11", "d", msg, key="interleaving")],
                         {"engine": "threads", "world": spec, "segments": sched.executed, "strategy": strat})
            break
    cr.sample = {"clients": len(spec["clients"]), "first_client": spec["clients"][0], "faults": spec["faults"][0]}
    return cr


def repeat_case(seed, idx, tier):
    """a + b: A, B, A' in one process: digests of A and A' equal; arguments untouched on every ending."""
    cr = CaseResult()
    rng = Rng(seed, "C11a", idx)
    sA = scenario.gen_statement(rng, PROFILES["C11"])
    if rng.chance(0.5):
        # a sibling call: same dimension, default options, a narrow box - the shape of call that shares
        # dimension-keyed or default-valued state with A if any is kept between calls
        sB = scenario.gen_statement(rng, profile(**dict(PROFILES["C11"], force_n=sA["n"], p_no_options=0.8,
                                                        p_bounds=1.0, p_narrow_box=0.8, p_inconsistent=0.0)))
        cr.stats["c11.a_sibling_between"] += 1
    else:
        sB = scenario.gen_statement(rng, PROFILES["C11"])
    st = cr.stats
    base = run_client(sA, [])
    cr.account(base)
    if base.harness_error:
        return cr
    # no eigh faults here: they are keyed by call count, and a behaviour-preserving memo cache that merely
    # changes how often LAPACK is called must not be reported as state kept between calls
    plan = [f for f in scenario.gen_fault_plan(rng, sA, _nevals(base), 0, allow_linalg=False) if f["kind"] != "cache_off"]
    sA2, how = force_ending(rng, sA, base)
    st["forced." + how] += 1
    # the very first call of this (freshly forked) process was `base`; now A under faults, B, then A again.
    # Every record (and with it every user object of that call: callback, constraint functions, arrays) is
    # dropped before the next call, as a caller's temporaries would be, so that state the library keeps about
    # dead objects (e.g. keyed by id) meets new objects at the same addresses.
    import gc
    if sA.get("callback") and rng.chance(0.6):
        other = {"partial": "partialkw", "partialkw": "partial", "obj": "objkw", "objkw": "obj", "pos": "kw",
                 "kw": "pos", "lambda": "kw", "posdefault": "kw", "objfalsy": "objkw"}[sA["callback"]["style"]]
        sB["callback"] = {"style": other, "mutate": False, "stop_at": None}
    base_digest = base.digest()
    base_nevals = _nevals(base)
    del base
    gc.collect()

    def once(stmt_, plan_, **kw):
        r = run_client(stmt_, plan_, **kw)
        cr.account(r, nontrivial_needs_fault=bool(plan_))
        out = (r.harness_error, None if r.harness_error else r.digest(),
               [] if r.harness_error else W.c11b(r, st), r.stmt, r.faults)
        del r
        gc.collect()
        return out

    r1 = once(sA, plan)
    rb = once(sB, [])
    r2 = once(sA, plan)
    r3 = once(sA, plan, use_probes=False)
    r5 = once(sA, plan + [scenario.poison_knob(rng)])
    rf_ = once(sA2, plan)
    # crash and restart: the same call dies inside a user function (which raises) at a seeded evaluation, from
    # its own PRNG stream; whatever the interrupted call had in flight must not survive into the next call
    rk = Rng(seed, "C11a-crash", idx)
    crash = None
    tg = scenario.gen_targets(sA)
    if tg and rk.chance(0.7):
        crash = [{"kind": "crash", "target": "obj" if (sA.get("obj") is not None and rk.chance(0.5)) else rk.pick(tg),
                  "when": {"at": rk.randint(1, max(1, base_nevals))},
                  "exc": rk.wpick([(3, "stop"), (3, "runtime"), (1, "lookup"), (1, "arith")])}]
        rc_ = once(sA, crash)
        st["c11.a_crashed_calls"] += 1
    else:
        rc_ = (None, None, [], sA, [])
    r4 = once(sA, [])
    if any(r[0] for r in (r1, r2, r3, r5, rb, rf_, rc_, r4)):
        return cr
    st["c11.a_repeats"] += 1
    pay = {"engine": "repeat", "stmt": sA, "faults": plan, "between": sB, "forced": sA2, "crash": crash}
    if r1[1] != r2[1]:
        cr.add_viols([Viol("C11", "a", "repeating a call after another call gives a different run", key="repeat_differs")], pay)
    if r1[1] != r3[1]:
        cr.add_viols([Viol("C11", "a", "the run differs with and without the read-only probes", key="probe_perturbs")], pay)
    if r1[1] != r5[1]:
        cr.add_viols([Viol("C11", "a", "the run depends on the contents of uninitialised memory (np.empty pre-filled with "
                           "garbage changes it)", key="uninitialised_memory")],
                     {"engine": "poison", "stmt": sA, "faults": plan, "poison": r5[4][-1]})
    if base_digest != r4[1]:
        cr.add_viols([Viol("C11", "a", "the first call of the process and the same call made after four other calls "
                           "differ", key="history_dependent")], pay)
    for r in (r1, rb, rf_, rc_):
        cr.add_viols(r[2], {"engine": "args", "stmt": r[3], "faults": r[4]})
    cr.sample = {"stmt": sA, "faults": plan}
    return cr


def nested_case(seed, idx, tier):
    """c: an objective or callback that itself calls minimize on an inner statement."""
    cr = CaseResult()
    rng = Rng(seed, "C11c", idx)
    outer = scenario.gen_statement(rng, PROFILES["C11"])
    inner = scenario.gen_statement(rng, PROF)
    if inner.get("options") is not None:
        inner["options"].pop("disp", None)
    where = "cb" if outer.get("callback") and rng.chance(0.4) else "obj"
    if where == "obj" and outer.get("obj") is None:
        where = "cb"
        outer["callback"] = {"style": "pos", "mutate": False, "stop_at": None}
    st = cr.stats
    base_o = run_client(outer, [])
    base_i = run_client(inner, [])
    cr.account(base_o)
    cr.account(base_i)
    if base_o.harness_error or base_i.harness_error:
        return cr
    N = max(1, _nevals(base_o))
    at = sorted(set(rng.randint(1, N) for _ in range(rng.randint(1, 3))))
    vs = nested_run(outer, inner, where, at, base_o.digest(), base_i.digest(), st, cr)
    cr.add_viols(vs, {"engine": "nested", "outer": outer, "inner": inner, "where": where, "at": at})
    cr.sample = {"outer": outer, "inner_n": inner["n"], "where": where, "at": at}
    return cr


def nested_run(outer, inner, where, at, dig_o, dig_i, st, cr=None):
    w = World()
    inner_recs = []

    def hook(ctx, kind, idx):
        if ctx.cid != 0 or kind != where or idx not in at:
            return
        saved = w.reenter_hook
        w.reenter_hook = None          # the inner call's own peers do not re-enter
        try:
            inner_recs.append(run_client(inner, [], world=w, cid=100 + len(inner_recs), capture=False))
        finally:
            w.reenter_hook = saved

    w.reenter_hook = hook
    ro = run_client(outer, [], world=w, cid=0)
    if cr is not None:
        cr.account(ro)
        for r in inner_recs:
            cr.account(r)
    st["c11.c_nested_calls"] += len(inner_recs)
    out = []
    for k, r in enumerate(inner_recs):
        if r.harness_error:
            continue
        if r.digest() != dig_i:
            out.append(Viol("C11", "c", "nested call %d (inside the outer %s) differs from the same call made alone"
                            % (k + 1, where), key="inner_differs"))
            break
    if not ro.harness_error and ro.digest() != dig_o:
        out.append(Viol("C11", "c", "the outer run is changed by nested minimize calls made from its %s" % where,
                        key="outer_differs"))
    return out


def c11_case(seed, idx, tier):
    m = idx % 4
    if m == 0:
        return repeat_case(seed, idx, tier)
    if m == 1:
        return nested_case(seed, idx, tier)
    return threads_case(seed, idx, tier)


def replay(p):
    eng = p["engine"]
    st = Counter()
    if eng == "args":
        return W.c11b(run_client(p["stmt"], p["faults"]), st)
    if eng == "poison":
        a = run_client(p["stmt"], p["faults"]).digest()
        b = run_client(p["stmt"], p["faults"] + [p["poison"]]).digest()
        if a != b:
            return [Viol("C11", "a", "the run depends on the contents of uninitialised memory", key="uninitialised_memory")]
        return []
    if eng == "repeat":
        import gc

        def dig(stmt_, plan_, **kw):
            r = run_client(stmt_, plan_, **kw)
            d = r.digest()
            del r
            gc.collect()
            return d

        base = dig(p["stmt"], [])
        r1 = dig(p["stmt"], p["faults"])
        if p.get("between"):
            dig(p["between"], [])
        r2 = dig(p["stmt"], p["faults"])
        r3 = dig(p["stmt"], p["faults"], use_probes=False)
        if p.get("forced"):
            dig(p["forced"], p["faults"])
        if p.get("crash"):
            dig(p["stmt"], p["crash"])
        r4 = dig(p["stmt"], [])
        out = []
        if r1 != r2:
            out.append(Viol("C11", "a", "repeating a call gives a different run", key="repeat_differs"))
        if r1 != r3:
            out.append(Viol("C11", "a", "the run differs with and without the read-only probes", key="probe_perturbs"))
        if base != r4:
            out.append(Viol("C11", "a", "the first call of the process and the same call made later differ",
                            key="history_dependent"))
        return out
    if eng == "nested":
        bo = run_client(p["outer"], [])
        bi = run_client(p["inner"], [])
        return nested_run(p["outer"], p["inner"], p["where"], p["at"], bo.digest(), bi.digest(), st)
    if eng == "threads":
        spec = p["world"]
        n = len(spec["clients"])
        base = [run_solo(spec, c)[0].digest() for c in range(n)]
        recs, sched = run_threaded(spec, p["segments"])
        bad = [c for c in range(n) if recs[c] is None or recs[c].digest() != base[c]]
        if bad:
            return [Viol("C11", "d", "client %d differs from its sequential baseline under the recorded schedule" % bad[0],
                         key="interleaving")]
        return []
    raise ValueError(eng)


def minimise(p):
    if p["engine"] != "threads":
        return p
    exp = p["expect"]

    def same(q):
        try:
            return any(v.prop == exp["prop"] and v.clause == exp["clause"] and v.key == exp["key"] for v in replay(q))
        except Exception:
            return False

    cur = copy.deepcopy(p)
    if not same(cur):
        return p
    runs = 0
    # drop clients
    changed = True
    while changed and runs < 60:
        changed = False
        n = len(cur["world"]["clients"])
        if n <= 2:
            break
        for c in range(n - 1, -1, -1):
            q = copy.deepcopy(cur)
            q["world"]["clients"].pop(c)
            q["world"]["faults"].pop(c)
            q["segments"] = [[s[0] - (1 if s[0] > c else 0), s[1]] for s in q["segments"] if s[0] != c]
            runs += 1
            if same(q):
                cur = q
                changed = True
                break
    # drop faults
    for c in range(len(cur["world"]["faults"])):
        if cur["world"]["faults"][c]:
            q = copy.deepcopy(cur)
            q["world"]["faults"][c] = []
            runs += 1
            if same(q):
                cur = q
    # merge / drop schedule segments
    changed = True
    while changed and runs < 200:
        changed = False
        segs = cur["segments"]
        for i in range(len(segs) - 1, -1, -1):
            q = copy.deepcopy(cur)
            q["segments"].pop(i)
            runs += 1
            if same(q):
                cur = q
                changed = True
                break
    cur["minimised"] = {"candidate_runs": runs}
    return cur
