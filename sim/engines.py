"""Case engines: each turns (seed, case index) into one or more simulated worlds,
applies the oracles of one property and returns a CaseResult.

Replay payloads are explicit (materialised statement + fault plan + engine
parameters), never just a seed.
"""
import copy
import math
from collections import Counter

from .rng import Rng
from . import scenario
from .scenario import profile
from .world import run_client
from .oracles import worldprops as W
from .oracles.common import Viol, eval_table, V_of, opt, feas_tol, consistent, beq, near_tol, n_free_of, unpack
from . import refmodel
import numpy as np


class CaseResult:
    def __init__(self):
        self.worlds = 0
        self.evals = 0
        self.events = 0
        self.stats = Counter()
        self.sigs = set()
        self.fired = Counter()
        self.status = Counter()
        self.kinds = Counter()
        self.viols = []       # list of (Viol, payload)
        self.sample = None
        self.cut_points = 0
        self.harness_errors = []
        self.digests = []

    def account(self, rec, nontrivial_needs_fault=False):
        self.worlds += 1
        if rec.harness_error:
            self.harness_errors.append(rec.harness_error)
            return
        groups, _ = rec.evaluations()
        self.digests.append(rec.digest())
        self.evals += len(groups)
        self.events += len(rec.events)
        for k, v in rec.fired.items():
            self.fired[k] += v
        st = rec.res["status"] if rec.res is not None else "exc"
        self.status[str(st)] += 1
        kinds = ()
        if rec.probe is not None:
            for k, v in rec.probe.kinds.items():
                self.kinds[k] += v
            kinds = tuple(sorted(rec.probe.kinds))
            for op in rec.probe.model_ops:
                self.stats["models_op." + str(op.get("op"))] += 1
                if op.get("ill"):
                    self.stats["models_op.ill_conditioned"] += 1
        s = rec.stmt
        o = s.get("options") or {}
        sig = (
            "obj" if s.get("obj") is not None else "noobj",
            bool(s.get("bounds")), len(s.get("linear") or []) > 0,
            tuple(sorted(ns.get("form", "nlc") for ns in (s.get("nonlinear") or []))),
            bool(o.get("scale")), n_free_of(s) < s["n"],
            (s.get("callback") or {}).get("style"),
            kinds, tuple(sorted(rec.fired)), str(st),
        )
        nontrivial = len(groups) > 1 and (not nontrivial_needs_fault or bool(rec.fired))
        if nontrivial:
            self.sigs.add(sig)
        else:
            self.stats["trivial_worlds"] += 1

    def add_viols(self, viols, payload):
        for v in viols:
            self.viols.append((v, payload))


def _nevals(rec):
    return len(rec.evaluations()[0])


def payload_world(stmt, faults, props, step_cap=None):
    p = {"engine": "world", "stmt": stmt, "faults": faults, "props": list(props)}
    if step_cap:
        p["step_cap"] = step_cap
    return p


def apply_props(rec, props, st):
    out = []
    for p in props:
        out.extend(W.ALL[p](rec, st))
    return out


# ---------------------------------------------------------------------------
# Generic faulted-world engine
# ---------------------------------------------------------------------------
PROFILES = {
    "C01": profile(p_bounds=1.0, p_scale=0.4, p_nonlinear=0.55, p_fixed=0.4, p_inconsistent=0.0,
                   p_all_fixed=0.01, p_callback=0.6, p_soc_bias=0.25, p_linear=0.45),
    "C02": profile(p_bounds=0.8, p_scale=0.4, p_nonlinear=0.6, p_linear=0.5, p_fixed=0.45, p_dict=0.4,
                   p_inconsistent=0.01, p_all_fixed=0.03),
    "C03": profile(p_nonlinear=0.7, p_linear=0.3, p_filter=0.4, p_noise=0.2, p_zero_tol=0.15),
    "C05": profile(p_no_obj=0.2, p_history=0.7, p_callback=0.4),
    "C06": profile(p_nonlinear=1.0, p_no_obj=0.15, p_disp=0.25, p_scale=0.35, p_fixed=0.4, p_dict=0.4,
                   p_mutating_functions=0.2),
    "C07": profile(p_all_fixed=0.08, p_inconsistent=0.08, p_target=0.3, p_no_obj=0.15, p_callback=0.6),
    "C08": profile(p_all_fixed=0.06, p_inconsistent=0.06, p_nan_bound=0.06, p_wide_radii=0.2, p_constants=0.4,
                   p_no_obj=0.12, p_strict_dims=0.5, p_disp=0.3, p_fixed=0.4, p_nonlinear=0.55),
    "C09": profile(p_no_obj=0.2, p_callback=1.0, p_nonlinear=0.55, p_inconsistent=0.0, p_all_fixed=0.0,
                   p_soc_bias=0.3),
    "C20": profile(p_callback=1.0, p_scale=0.4, p_fixed=0.4, p_bounds=0.8, p_inconsistent=0.0, p_all_fixed=0.0,
                   p_filter=0.5, p_nonlinear=0.6),
    "C11": profile(p_callback=0.5, p_inconsistent=0.02, p_no_options=0.4, n_weights=[(3, 1), (5, 2), (4, 3), (1, 4)],
                   p_options_numpy=0.3),
    "C12": profile(p_nonlinear=0.8, p_callback=0.1, p_inconsistent=0.0, p_all_fixed=0.0, maxfev_hi=140,
                   p_soc_bias=0.2),
    "C18": profile(p_wide_radii=0.35, p_constants=0.6, p_callback=0.1, p_inconsistent=0.0, p_all_fixed=0.0,
                   maxfev_hi=160, p_no_obj=0.15, p_linear=0.5,
                   obj_fams=[(4, "quad"), (1.5, "cubic"), (1.5, "rosen"), (1.5, "abs"), (1, "maxaff"), (1, "linear"),
                             (1.5, "const")]),
}

PROPS_OF = {
    "C01": ["C01"], "C02": ["C02"], "C03": ["C03"], "C05": ["C05"], "C06": ["C06"], "C07": ["C07"],
    "C08": ["C08"], "C09": ["C09"], "C20": ["C20"], "C12": ["C12"], "C18": ["C18"],
}


def force_ending(rng, stmt, base):
    """C07: make a chosen ending happen (the simulator knows which)."""
    s = copy.deepcopy(stmt)
    N = max(1, _nevals(base))
    how = rng.wpick([(3, "none"), (3, "stop"), (2, "budget"), (2, "budget_init"), (2, "maxiter"), (3, "target")])
    o = s.get("options") or {}
    s["options"] = o
    if how == "stop":
        if s.get("callback") is None:
            s["callback"] = {"style": rng.pick(["pos", "kw", "obj", "lambda"]), "mutate": False}
        s["callback"]["stop_at"] = rng.wpick([(1, 1), (3, rng.randint(1, N))])
    elif how == "budget":
        o["maxfev"] = rng.randint(1, N)
    elif how == "budget_init":
        npt = o.get("nb_points") or 2 * max(n_free_of(s), 1) + 1
        o["maxfev"] = rng.randint(1, max(1, npt))
    elif how == "maxiter":
        o["maxiter"] = rng.randint(1, 8)
    elif how == "target":
        evs, _ = eval_table(base)
        fs = [e.fun for e in evs if e.fun is not None and math.isfinite(e.fun) and abs(e.fun) < 1e20]
        tol = feas_tol(s)
        infeas = []
        for e in evs:
            if e.fun is None or not math.isfinite(e.fun) or abs(e.fun) >= 1e20:
                continue
            V, scale, has_nan = V_of(base, e)
            if not has_nan and V > tol * (1.0 + 1e-6) + 1e-9:
                infeas.append(e.fun)
        if infeas and rng.chance(0.6):
            # a target first met at an *infeasible* point exercises the feasibility half of the request
            o["target"] = rng.pick(infeas)
        elif fs:
            o["target"] = rng.pick(fs)
    return s, how


STEP_CAP = 5 * 10 ** 6

NESTED_PROF = profile(p_callback=0.3, p_inconsistent=0.0, p_all_fixed=0.0, maxfev_hi=30, p_disp=0.0,
                      n_weights=[(3, 1), (5, 2), (2, 3)], p_no_options=0.2)


def run_nested(stmt, faults, inner, where, at):
    """The outer call's objective (or callback) itself calls minimize on `inner` at the given call indices:
    every property must hold for the outer and the inner calls of re-entrant use as well."""
    from .world import World
    w = World()
    inner_recs = []

    def hook(ctx, kind, idx):
        if ctx.cid != 0 or kind != where or idx not in at:
            return
        saved = w.reenter_hook
        w.reenter_hook = None
        try:
            inner_recs.append(run_client(inner, [], world=w, cid=100 + len(inner_recs), capture=False))
        finally:
            w.reenter_hook = saved

    w.reenter_hook = hook
    ro = run_client(stmt, faults, world=w, cid=0)
    return ro, inner_recs


def nested_variant(prop, rng, stmt, plan, base, cr, props, st):
    inner = scenario.gen_statement(rng, NESTED_PROF)
    where = "obj" if stmt.get("obj") is not None else ("cb" if stmt.get("callback") else None)
    if where is None:
        return
    N = max(1, _nevals(base))
    at = sorted(set(rng.randint(1, N) for _ in range(rng.randint(1, 3))))
    ro, inner_recs = run_nested(stmt, plan, inner, where, at)
    cr.account(ro, nontrivial_needs_fault=bool(plan))
    st["nested_worlds"] += 1
    st["nested_inner_calls"] += len(inner_recs)
    pay = {"engine": "nested_world", "stmt": stmt, "faults": plan, "inner": inner, "where": where, "at": at,
           "props": list(props)}
    if not ro.harness_error:
        cr.add_viols(apply_props(ro, props, st), pay)
    for r in inner_recs:
        cr.account(r)
        if not r.harness_error:
            cr.add_viols(apply_props(r, props, st), dict(pay, inner_violation=True))


def enumerate_single_faults(stmt, base, cr, props, st):
    """C08: every reply-fault kind at every evaluation index of the baseline run, one at a time."""
    N = _nevals(base)
    targets = scenario.gen_targets(stmt)
    if not targets or N == 0 or N > 30:
        return
    for kind in ("nan", "pinf", "ninf", "huge"):
        for k in range(1, N + 1):
            for tgt in targets[:2]:
                plan = [{"kind": kind, "target": tgt, "when": {"at": k}}]
                rec = run_client(stmt, plan)
                cr.account(rec, nontrivial_needs_fault=True)
                cr.cut_points += 1
                st["c08.single_fault_positions"] += 1
                if not rec.harness_error:
                    cr.add_viols(apply_props(rec, props, st), payload_world(stmt, plan, props))


def faulted_case(prop, seed, idx, tier, step_cap=None):
    cr = CaseResult()
    prof = PROFILES[prop]
    rs = Rng(seed, "scen", prop, idx)
    stmt = scenario.gen_statement(rs, prof)
    if prop == "C12" and rs.chance(0.6) and stmt.get("obj") is not None:
        add_twins(rs, stmt)
    props = PROPS_OF[prop]
    base = run_client(stmt, [])
    cr.account(base)
    if base.harness_error:
        return cr
    st = cr.stats
    cr.add_viols(apply_props(base, props, st), payload_world(stmt, [], props))
    st["fault_free_worlds"] += 1
    rf = Rng(seed, "fault", prop, idx)
    if prop == "C07" or (prop in ("C08", "C02", "C03") and rf.chance(0.35)):
        stmt2, how = force_ending(rf, stmt, base)
        st["forced." + how] += 1
        if how == "none":
            stmt2 = stmt
    else:
        stmt2 = stmt
    level = None
    if prop == "C08":
        level = rf.wpick([(10, 0), (35, 1), (35, 2), (20, 3)])
    plan = scenario.gen_fault_plan(rf, stmt2, _nevals(base), base.ctx.linalg_calls.get("eigh", 0), level=level)
    if prop == "C08" and idx % 16 == 5:
        enumerate_single_faults(stmt, base, cr, props, st)
    if prop == "C08" and (not consistent(stmt) or n_free_of(stmt) == 0):
        # degenerate bounds: the single evaluation happens while the result is built; enumerate what can meet there
        for kind in (None, "nan", "pinf", "ninf", "huge"):
            for stop in (False, True):
                s3 = copy.deepcopy(stmt)
                if stop:
                    s3["callback"] = s3.get("callback") or {"style": "pos", "mutate": False}
                    s3["callback"]["stop_at"] = 1
                for tgt in (scenario.gen_targets(s3)[:2] if kind else [None]):
                    plan3 = [{"kind": kind, "target": tgt, "when": {"at": 1}}] if kind else []
                    r3 = run_client(s3, plan3)
                    cr.account(r3, nontrivial_needs_fault=False)
                    cr.cut_points += 1
                    st["c08.degenerate_combos"] += 1
                    if not r3.harness_error:
                        cr.add_viols(apply_props(r3, props, st), payload_world(s3, plan3, props))
    if prop == "C08" and step_cap is None and idx % 32 == 7:
        step_cap = STEP_CAP          # exercise the bounded-progress tracer on a sample of worlds
    if plan or stmt2 is not stmt or step_cap:
        rec = run_client(stmt2, plan, step_cap=step_cap)
        cr.account(rec, nontrivial_needs_fault=bool(plan))
        if not rec.harness_error:
            st["fault_worlds"] += 1
            cr.add_viols(apply_props(rec, props, st), payload_world(stmt2, plan, props, step_cap))
    if prop not in ("C12", "C18") and rf.chance(0.12):
        nested_variant(prop, rf, stmt2, plan, base, cr, props, st)
    if prop == "C07":
        crash_world(seed, idx, stmt, base, cr, props, st)
    if cr.sample is None:
        cr.sample = {"stmt": stmt2, "faults": plan}
    return cr


def crash_world(seed, idx, stmt, base, cr, props, st):
    """A peer crashes: a user objective / constraint function raises at one evaluation (its own seeded stream, so
    the other worlds of the case are what they were).  The exception belongs to the caller; whatever minimize
    does with it, a status that documents something else (3 = "the callback asked to stop") must not be issued."""
    rc = Rng(seed, "crash", "C07", idx)
    if not rc.chance(0.3):
        return
    targets = scenario.gen_targets(stmt)
    if not targets:
        return
    N = max(1, _nevals(base))
    k = rc.wpick([(2, 1), (2, min(N, 2)), (2, min(N, stmt["n"] + 2)), (6, rc.randint(1, N))])
    target = "obj" if (stmt.get("obj") is not None and rc.chance(0.5)) else rc.pick(targets)
    exc = rc.wpick([(5, "stop"), (2, "runtime"), (1, "lookup"), (1, "arith")])
    plan = [{"kind": "crash", "target": target, "when": {"at": k}, "exc": exc}]
    rec = run_client(stmt, plan)
    cr.account(rec, nontrivial_needs_fault=True)
    if rec.harness_error:
        return
    st["c07.crash_worlds"] += 1
    if rec.ctx.crash_exc is not None:
        st["c07.crash_fired"] += 1
        st["c07.crash_escaped" if rec.exc is not None else "c07.crash_result_returned"] += 1
    cr.add_viols(apply_props(rec, props, st), payload_world(stmt, plan, props))


def add_twins(rng, stmt):
    """C12.b: an inequality and an equality constraint whose function IS the
    objective (limit 0), so that all three models receive bit-identical data."""
    obj = {k: v for k, v in stmt["obj"].items() if k not in ("ret", "args", "name")}
    tw = []
    tw.append({"form": "nlc", "comps": [dict(obj)], "lb": [-math.inf], "ub": [0.0], "ret": "ndarray"})
    tw.append({"form": "nlc", "comps": [dict(obj)], "lb": [0.0], "ub": [0.0], "ret": "ndarray"})
    stmt["nonlinear"] = tw
    stmt["obj"]["args"] = None
    stmt["twin"] = True
    for s in stmt.get("linear") or []:
        s.pop("pos", None)


# ---------------------------------------------------------------------------
# Cut-point enumeration engines (C05, C09, C20)
# ---------------------------------------------------------------------------
def with_stop(stmt, k, style=None):
    s = copy.deepcopy(stmt)
    if s.get("callback") is None:
        s["callback"] = {"style": style or "pos", "mutate": False}
    s["callback"]["stop_at"] = k
    return s


def pick_ks(rng, N, kmax):
    ks = list(range(1, min(N, kmax) + 1))
    if N > kmax:
        extra = sorted(set(rng.randint(kmax + 1, N) for _ in range(max(2, kmax // 4))))
        ks += extra
    return ks


def c20_branch(base, rec_k, k, st):
    """C20.d: stop@k returns exactly what the k-th callback call received."""
    out = []
    cbs = [e for e in base.events if e["k"] == "cb" and not e.get("probe")]
    if len(cbs) >= k and rec_k.res is None and rec_k.exc is not None and rec_k.ctx.cb_raised:
        return [Viol("C20", "d", "callback raised StopIteration at call %d and minimize raised %s instead of returning"
                     % (k, rec_k.exc["type"]), key="stop_raises")]
    if len(cbs) < k or rec_k.res is None:
        return out
    cbk = cbs[k - 1]
    res = rec_k.res
    st["c20.d_branches"] += 1
    if res["status"] != 3:
        out.append(Viol("C20", "d", "callback raised StopIteration at call %d but status=%r" % (k, res["status"]),
                        key="stop_status"))
    if res["nfev"] != k:
        out.append(Viol("C20", "d", "callback raised StopIteration at call %d but nfev=%r" % (k, res["nfev"]),
                        key="stop_nfev"))
    if cbk["x"] and np.array(res["x"], dtype=float).tobytes() != cbk["x"]:
        out.append(Viol("C20", "d", "the point the callback received at call %d is not the point minimize returns "
                        "when stopped there: %r vs %r" % (k, unpack(cbk["x"]), list(res["x"])), key="not_returned_point"))
    if cbk["fun"] is not None and not beq(float(res["fun"]), cbk["fun"]):
        out.append(Viol("C20", "d", "callback %d received fun=%r, stopping there returns fun=%r"
                        % (k, cbk["fun"], res["fun"]), key="not_returned_fun"))
    return out


def c20_budget_branch(base, rec_k, k, st):
    """C20.g: "the very point minimize would return if it stopped at that moment" also for a stop by budget:
    with maxfev = k the run ends after evaluation k; if the penalty in force has not changed in between (probe),
    the result must be bit-equal to what callback call k received."""
    out = []
    cbs = [e for e in base.events if e["k"] == "cb" and not e.get("probe")]
    if len(cbs) < k or rec_k.res is None or base.probe is None or rec_k.probe is None:
        return out
    if rec_k.res["status"] != 5 or rec_k.res["nfev"] != k or rec_k.probe.final is None:
        st["c20.g_not_a_budget_stop"] += 1
        return out
    if len(base.probe.evals) < k or "penalty" not in base.probe.evals[k - 1]:
        st["c20.g_not_evaluated"] += 1
        return out
    if base.probe.evals[k - 1]["penalty"] != rec_k.probe.final["penalty"]:
        st["c20.g_penalty_changed_guard"] += 1
        return out
    cbk = cbs[k - 1]
    st["c20.g_branches"] += 1
    if cbk["x"] and np.array(rec_k.res["x"], dtype=float).tobytes() != cbk["x"]:
        out.append(Viol("C20", "g", "callback call %d received %r but a run stopped by its budget right after that "
                        "evaluation (same penalty) returns %r" % (k, unpack(cbk["x"]), list(rec_k.res["x"])),
                        key="budget_stop_point"))
    elif cbk["fun"] is not None and not beq(float(rec_k.res["fun"]), cbk["fun"]):
        out.append(Viol("C20", "g", "callback call %d received fun=%r, a budget stop there returns fun=%r"
                        % (k, cbk["fun"], rec_k.res["fun"]), key="budget_stop_fun"))
    return out


def with_budget(stmt, k):
    s = copy.deepcopy(stmt)
    s["options"] = dict(s.get("options") or {})
    s["options"]["maxfev"] = k
    return s


def prefix_ok(base, rec_k):
    a = [(e["k"], e.get("x"), repr(e.get("v"))) for e in base.user_events() if e["k"] in ("obj", "con")]
    b = [(e["k"], e.get("x"), repr(e.get("v"))) for e in rec_k.user_events() if e["k"] in ("obj", "con")]
    return a[: len(b)] == b


def cut_case(prop, seed, idx, tier):
    cr = CaseResult()
    prof = PROFILES[prop]
    rs = Rng(seed, "scen", prop, idx)
    stmt = scenario.gen_statement(rs, prof)
    st = cr.stats
    rf = Rng(seed, "fault", prop, idx)
    kmax = 32 if tier == "quick" else 80
    # a recording callback is needed to observe what each call receives
    if prop in ("C09", "C20") and stmt.get("callback") is None:
        stmt["callback"] = {"style": rs.pick(["pos", "kw"]), "mutate": False, "stop_at": None}
    if stmt.get("callback"):
        stmt["callback"]["stop_at"] = None
    prelude = None
    if prop == "C20" and rs.chance(0.5):
        # an earlier call in the same (freshly forked) process whose callback asks for the *other* convention:
        # whatever the library remembers about callbacks between calls must not leak into this one
        other = {"partial": "partialkw", "partialkw": "partial", "obj": "objkw", "objkw": "obj", "pos": "kw",
                 "kw": "pos", "lambda": "kw", "posdefault": "kw", "objfalsy": "objkw"}[stmt["callback"]["style"]]
        prelude = {"n": 1, "x0": [0.5], "obj": {"fam": "quad", "c": [0.0], "d": [1.0], "e": 0.0, "ret": "float", "args": None},
                   "bounds": None, "linear": [], "nonlinear": [], "callback": {"style": other, "mutate": False, "stop_at": None},
                   "options": {"maxfev": 4}, "constants": {}}
        rp = run_client(prelude, [])
        cr.account(rp)
        st["c20.preludes"] += 1
    base0 = run_client(stmt, [])
    cr.account(base0)
    if base0.harness_error:
        return cr
    plan = []
    if rf.chance(0.5):
        plan = scenario.gen_fault_plan(rf, stmt, _nevals(base0), 0, level=rf.wpick([(3, 1), (1, 2)]), allow_linalg=False)
    base = run_client(stmt, plan) if plan else base0
    if plan:
        cr.account(base, nontrivial_needs_fault=True)
    if base.harness_error:
        return cr
    N = _nevals(base)
    props = PROPS_OF[prop]
    pw = payload_world(stmt, plan, props)
    if prelude is not None:
        pw["prelude"] = prelude
    cr.add_viols(apply_props(base, props, st), pw)
    cr.sample = {"stmt": stmt, "faults": plan, "baseline_evaluations": N}
    if N == 0:
        return cr
    ks = pick_ks(rf, N, kmax)
    if prop == "C20":
        mut = stmt["callback"].get("mutate")
        if not mut and rf.chance(0.5):
            # f: an overwriting callback leaves the history bit-identical
            s2 = copy.deepcopy(stmt)
            s2["callback"]["mutate"] = True
            r2 = run_client(s2, plan)
            cr.account(r2)
            st["c20.f_pairs"] += 1
            if r2.digest() != base.digest():
                cr.add_viols([Viol("C20", "f", "a callback that overwrites the array it receives changed the run",
                                   key="mutation_leaks")], {"engine": "c20f", "stmt": stmt, "faults": plan})
        for k in ks:
            sk = with_stop(stmt, k)
            rk = run_client(sk, plan)
            cr.account(rk)
            cr.cut_points += 1
            if rk.harness_error:
                continue
            v = c20_branch(base, rk, k, st)
            v += W.c20(rk, st)
            if not prefix_ok(base, rk):
                st["prefix_mismatch"] += 1
            cr.add_viols(v, {"engine": "c20d", "stmt": stmt, "faults": plan, "k": k, "prelude": prelude})
            if not stmt["callback"].get("mutate") and (k % 2 == 1 or tier == "thorough"):
                rb = run_client(with_budget(stmt, k), plan)
                cr.account(rb)
                cr.cut_points += 1
                if not rb.harness_error:
                    cr.add_viols(c20_budget_branch(base, rb, k, st),
                                 {"engine": "c20g", "stmt": stmt, "faults": plan, "k": k, "prelude": prelude})
    elif prop == "C09":
        evs, _ = eval_table(base)
        tol = feas_tol(stmt)
        has_obj = stmt.get("obj") is not None
        # stop@k for every k
        for k in ks:
            sk = with_stop(stmt, k)
            rk = run_client(sk, plan)
            cr.account(rk)
            cr.cut_points += 1
            st["c09.stop_cuts"] += 1
            st["c09.kind_" + str(evs[k - 1].kind if k <= len(evs) else None)] += 1
            if rk.harness_error:
                continue
            cr.add_viols(W.c09(rk, st), payload_world(sk, plan, ["C09"]))
        # target@k with a matching tolerance at every second-order-correction evaluation (and a few others): the
        # pair (target, feasibility_tol) is chosen so that evaluation k is the first one to satisfy the request
        if has_obj and consistent(stmt) and not refmodel.contradictory_limits(stmt):
            table = []
            for e in evs:
                V, scale, has_nan = V_of(base, e)
                table.append(None if (has_nan or e.fun is None or not math.isfinite(e.fun) or not math.isfinite(V)) else (e.fun, V))
            picks = [e for e in evs if e.kind == "soc"][:6] + [e for e in evs if e.kind == "geo"][:2]
            for e in picks:
                tv = table[e.idx - 1]
                if tv is None or tv[1] > 1e6:
                    continue
                f_k, V_k = tv
                tol_k = V_k * (1.0 + 1e-6) + 1e-9
                earlier_ok = all(t is not None and not (t[0] <= f_k and t[1] <= tol_k * (1.0 + 1e-6) + 1e-9) for t in table[: e.idx - 1])
                if not earlier_ok:
                    continue
                s2 = copy.deepcopy(stmt)
                s2["options"] = dict(s2.get("options") or {})
                s2["options"]["target"] = float(f_k)
                s2["options"]["feasibility_tol"] = float(tol_k)
                r2 = run_client(s2, plan)
                cr.account(r2)
                cr.cut_points += 1
                st["c09.target_tol_cuts"] += 1
                st["c09.kind_" + str(e.kind)] += 1
                if not r2.harness_error:
                    cr.add_viols(W.c09(r2, st), payload_world(s2, plan, ["C09"]))
        # target@k / feasible@k
        if consistent(stmt) and not refmodel.contradictory_limits(stmt):
            best_f = math.inf
            best_v = math.inf
            cnt = 0
            for e in evs:
                V, scale, has_nan = V_of(base, e)
                if has_nan:
                    continue
                if has_obj:
                    if e.fun is None or not math.isfinite(e.fun):
                        continue
                    if V <= tol and not near_tol(V, tol) and e.fun < best_f and abs(e.fun) < 1e20:
                        if e.idx in ks or cnt < 4:
                            s2 = copy.deepcopy(stmt)
                            s2["options"] = dict(s2.get("options") or {})
                            s2["options"]["target"] = float(e.fun)
                            r2 = run_client(s2, plan)
                            cr.account(r2)
                            cr.cut_points += 1
                            cnt += 1
                            st["c09.target_cuts"] += 1
                            st["c09.kind_" + str(e.kind)] += 1
                            if not r2.harness_error:
                                cr.add_viols(W.c09(r2, st), payload_world(s2, plan, ["C09"]))
                        best_f = e.fun
                else:
                    if V < best_v and V < 1e6:
                        # (tolerances beyond the barrier magnitude 2**100 would make an undefined, barrier-valued
                        # reply count as feasible; such configurations are not generated)
                        newtol = V + 1e-6 * max(1.0, V)
                        if best_v > newtol + 1e-6 * max(1.0, newtol) and (e.idx in ks or cnt < 4):
                            s2 = copy.deepcopy(stmt)
                            s2["options"] = dict(s2.get("options") or {})
                            s2["options"]["feasibility_tol"] = newtol
                            r2 = run_client(s2, plan)
                            cr.account(r2)
                            cr.cut_points += 1
                            cnt += 1
                            st["c09.feasible_cuts"] += 1
                            if not r2.harness_error:
                                cr.add_viols(W.c09(r2, st), payload_world(s2, plan, ["C09"]))
                        best_v = V
    elif prop == "C05":
        npt = (stmt.get("options") or {}).get("nb_points") or 2 * max(n_free_of(stmt), 1) + 1
        ks = sorted(set(ks) | {k for k in (npt - 1, npt, npt + 1) if k >= 1})
        for k in ks:
            s2 = copy.deepcopy(stmt)
            s2["options"] = dict(s2.get("options") or {})
            s2["options"]["maxfev"] = k
            if rf.chance(0.5):
                s2["options"]["store_history"] = True
                s2["options"]["history_size"] = rf.pick([1, 2, max(1, k - 1), k, k + 1, 10 ** 6])
            r2 = run_client(s2, plan)
            cr.account(r2)
            cr.cut_points += 1
            st["c05.budget_cuts"] += 1
            if not r2.harness_error:
                cr.add_viols(W.c05(r2, st), payload_world(s2, plan, ["C05"]))
                if not prefix_ok(base, r2):
                    st["prefix_mismatch"] += 1
        if stmt.get("obj") is not None or stmt.get("callback"):
            s2 = copy.deepcopy(stmt)
            s2["options"] = dict(s2.get("options") or {})
            s2["options"]["maxfev"] = rf.randint(2, max(2, N))
            nested_variant("C05", rf, s2, plan, base, cr, ["C05"], st)
        nit = base.res["nit"] if base.res is not None else 0
        for k in sorted(set([1, 2, 3] + [rf.randint(1, max(1, nit)) for _ in range(3)])):
            s2 = copy.deepcopy(stmt)
            s2["options"] = dict(s2.get("options") or {})
            s2["options"]["maxiter"] = k
            r2 = run_client(s2, plan)
            cr.account(r2)
            cr.cut_points += 1
            st["c05.maxiter_cuts"] += 1
            if not r2.harness_error:
                cr.add_viols(W.c05(r2, st), payload_world(s2, plan, ["C05"]))
    return cr


# ---------------------------------------------------------------------------
# Replay of a payload (used for minimisation and for --replay)
# ---------------------------------------------------------------------------
def replay_payload(p):
    """Re-run a payload; return the list of Viol it produces now."""
    st = Counter()
    eng = p["engine"]
    if p.get("prelude"):
        run_client(p["prelude"], [])
    if eng == "world":
        rec = run_client(p["stmt"], p["faults"], step_cap=p.get("step_cap"))
        if rec.harness_error:
            raise RuntimeError(rec.harness_error)
        return apply_props(rec, p["props"], st)
    if eng == "nested_world":
        ro, inner_recs = run_nested(p["stmt"], p["faults"], p["inner"], p["where"], p["at"])
        if ro.harness_error:
            raise RuntimeError(ro.harness_error)
        out = apply_props(ro, p["props"], st)
        for r in inner_recs:
            if not r.harness_error:
                out += apply_props(r, p["props"], st)
        return out
    if eng == "c20d":
        base = run_client(p["stmt"], p["faults"])
        rk = run_client(with_stop(p["stmt"], p["k"]), p["faults"])
        if base.harness_error or rk.harness_error:
            raise RuntimeError(base.harness_error or rk.harness_error)
        return c20_branch(base, rk, p["k"], st) + W.c20(rk, st)
    if eng == "c20g":
        base = run_client(p["stmt"], p["faults"])
        rb = run_client(with_budget(p["stmt"], p["k"]), p["faults"])
        if base.harness_error or rb.harness_error:
            raise RuntimeError(base.harness_error or rb.harness_error)
        return c20_budget_branch(base, rb, p["k"], st)
    if eng == "c20f":
        base = run_client(p["stmt"], p["faults"])
        s2 = copy.deepcopy(p["stmt"])
        s2["callback"]["mutate"] = True
        r2 = run_client(s2, p["faults"])
        if r2.digest() != base.digest():
            return [Viol("C20", "f", "a callback that overwrites the array it receives changed the run",
                         key="mutation_leaks")]
        return []
    from . import engines_ext
    return engines_ext.replay_payload(p)
