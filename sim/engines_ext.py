"""Replay dispatch for the engines defined outside engines.py (machines, pairs, threads)."""


def replay_payload(p):
    eng = p["engine"]
    if eng in ("filter_machine",):
        from .machines import filter as fm
        return fm.replay(p)
    if eng in ("models_machine",):
        from .machines import models as mm
        return mm.replay(p)
    if eng in ("radius_machine",):
        from .machines import radius as rm
        return rm.replay(p)
    if eng in ("pair", "faithful"):
        from . import pairs
        return pairs.replay(p)
    if eng in ("threads", "repeat", "nested", "args"):
        from . import conc
        return conc.replay(p)
    raise ValueError("unknown engine %r" % (eng,))
