"""Replay dispatch for the engines defined outside engines.py (machines, pairs, threads)."""


def replay_payload(p):
    eng = p["engine"]
    if eng in ("filter_machine",):
        from .machines import filter as fm
        return fm.replay(p)
    if eng in ("models_machine",):
        from .machines import models as mm
        return mm.replay(p)
    if eng in ("radius_machine",):
        from .machines import radius as rm
        return rm.replay(p)
    if eng in ("pair", "faithful"):
        from . import pairs
        return pairs.replay(p)
    if eng in ("threads", "repeat", "nested", "args", "poison"):
        from . import conc
        return conc.replay(p)
    raise ValueError("unknown engine %r" % (eng,))


def minimise(p):
    eng = p["engine"]
    mod = None
    if eng == "filter_machine":
        from .machines import filter as mod
    elif eng == "models_machine":
        from .machines import models as mod
    elif eng == "radius_machine":
        from .machines import radius as mod
    elif eng in ("pair", "faithful"):
        from . import pairs as mod
    elif eng in ("threads", "repeat", "nested", "args", "poison"):
        from . import conc as mod
    fn = getattr(mod, "minimise", None) if mod is not None else None
    return fn(p) if fn else p
