"""Scripted black-box functions (the solver's peers compute their replies here).

Every family is a deterministic function of the point, written with plain
Python float arithmetic on lists (n <= 6), so that the reply does not depend
on BLAS kernels, array shapes or hashing.  Pseudo-noise is an integer hash of
the exact byte image of the point (never Python's hash()).
"""
import hashlib
import math
import struct


def _noise_unit(xb, salt):
    """Deterministic value in [-1, 1) from the byte image of a point."""
    h = hashlib.blake2b(xb, digest_size=8, salt=struct.pack("<q", salt)).digest()
    return int.from_bytes(h, "little") / 2.0 ** 63 - 1.0


def eval_family(spec, x):
    """Value of one scalar family at x (list of floats)."""
    fam = spec["fam"]
    n = len(x)
    if fam == "quad":
        c, d, e = spec["c"], spec["d"], spec["e"]
        s = 0.0
        for i in range(n):
            t = x[i] - c[i]
            s += d[i] * t * t
        for i in range(n - 1):
            s += e * x[i] * x[i + 1]
        return s + spec.get("k", 0.0)
    if fam == "cubic":
        c, d, g = spec["c"], spec["d"], spec["g"]
        s = 0.0
        for i in range(n):
            t = x[i] - c[i]
            s += d[i] * t * t + g * t * t * t
        return s
    if fam == "rosen":
        if n == 1:
            return (1.0 - x[0]) ** 2
        s = 0.0
        for i in range(n - 1):
            s += spec["a"] * (x[i + 1] - x[i] * x[i]) ** 2 + (1.0 - x[i]) ** 2
        return s
    if fam == "abs":
        c = spec["c"]
        return sum(abs(x[i] - c[i]) for i in range(n))
    if fam == "maxaff":
        best = -math.inf
        for a, b in zip(spec["a"], spec["b"]):
            v = b
            for i in range(n):
                v += a[i] * x[i]
            if v > best:
                best = v
        return best
    if fam == "linear":
        g = spec["g"]
        return sum(g[i] * x[i] for i in range(n)) + spec.get("k", 0.0)
    if fam == "const":
        return spec["k"]
    if fam == "step":
        # integer-valued black box (a count, a floor): piecewise constant
        g = spec["g"]
        return float(math.floor(sum(g[i] * x[i] for i in range(n)))) - spec.get("k", 0.0)
    if fam == "ball":
        c = spec["c"]
        return sum((x[i] - c[i]) ** 2 for i in range(n)) - spec["r"] ** 2
    if fam == "ellipsoid":
        c, d = spec["c"], spec["d"]
        return sum(d[i] * (x[i] - c[i]) ** 2 for i in range(n)) - spec["r"] ** 2
    if fam == "product":
        i, j = spec["i"] % n, spec["j"] % n
        return x[i] * x[j] - spec["p"]
    if fam == "sine":
        i, j = spec["i"] % n, spec["j"] % n
        return math.sin(spec["w"] * x[i]) + x[j] - spec["p"]
    raise ValueError("unknown family %r" % (fam,))


def eval_scalar(spec, x, xb):
    """Family value plus optional deterministic pseudo-noise, sign and offset."""
    try:
        v = eval_family(spec, x)
    except OverflowError:
        v = math.inf
    v = spec.get("sign", 1.0) * v
    amp = spec.get("noise", 0.0)
    if amp:
        v += amp * _noise_unit(xb, spec.get("salt", 0))
    return v
