"""Component state machines: seeded operation/fault histories against one real
long-lived component, with a reference model that is trivial inside."""
