"""Filter machine (C03): a real cobyqa Problem is fed a seeded history of
(objective, constraint) replies; after EVERY reply `best_eval(penalty)` is
compared with a plain-list reference model."""
import copy
import math
from collections import Counter

import numpy as np

from ..rng import Rng
from ..oracles.common import Viol
from ..engines import CaseResult

SQRT_EPS = math.sqrt(float(np.finfo(float).eps))
NAN = math.nan
INF = math.inf


def gen_history(rng):
    tol = rng.wpick([(5, SQRT_EPS), (1, 0.0), (1, 0.5), (1, 1e-3)])
    size = rng.wpick([(5, None), (1, 1), (1, 2), (1, 3), (1, 5)])
    nonfinite = rng.chance(0.45)
    fvals = [s * m for s in (-2.0, -1.0, 0.0, 1.0, 2.0) for m in (1.0, 1.0 + 2.0 ** -40)]
    # values one ulp apart: a tolerance-based "tie" must not swallow a strictly smaller objective
    fvals += [math.nextafter(v, INF) for v in (-2.0, -1.0, 1.0, 2.0)] + [1e6, math.nextafter(1e6, INF)]
    cvals = [-1.0, 0.0, tol, math.nextafter(tol, INF), 0.5, 1.0, 2.0]
    length = rng.randint(1, 40)
    ops = []
    for _ in range(length):
        if nonfinite and rng.chance(0.25):
            f = rng.pick([NAN, NAN, INF, -INF])
        else:
            f = rng.pick(fvals)
        if nonfinite and rng.chance(0.2):
            c = rng.pick([NAN, NAN, INF])
        else:
            c = rng.pick(cvals)
        pens = [rng.pick([0.0, 2.0 ** -20, 1.0, 2.0 ** 20]) for _ in range(rng.randint(1, 2))]
        ops.append([f, c, pens])
    return {"tol": tol, "filter_size": size, "ops": ops}


def _defined(v):
    return v == v


def ref_retention(kept, e, size):
    """Documented retention on a plain list, for fully defined finite entries."""
    f, v = e[0], e[1]
    enters = all(f < k[0] or v < k[1] for k in kept)
    if not enters:
        return kept
    kept = [k for k in kept if not (f <= k[0] and v <= k[1])]
    kept.append(e)
    if size is not None and len(kept) > size:
        kept.pop(0)
    return kept


def ref_select(entries, penalty, tol):
    feas = [e for e in entries if e[1] <= tol]
    if feas:
        fmin = min(e[0] for e in feas)
        c = [e for e in feas if e[0] <= fmin]
        vmin = min(e[1] for e in c)
        c = [e for e in c if e[1] <= vmin]
        return c[-1]
    merit = [(e[0] + penalty * e[1], e) for e in entries]
    mmin = min(m for m, _ in merit)
    c = [e for m, e in merit if m <= mmin]
    vmin = min(e[1] for e in c)
    c = [e for e in c if e[1] <= vmin]
    fmin = min(e[0] for e in c)
    c = [e for e in c if e[0] <= fmin]
    return c[-1]


def _beq(a, b):
    return (a != a and b != b) or a == b


def run_history(h, st=None):
    """Drive the real Problem; return list of Viol (first violation only)."""
    st = st if st is not None else Counter()
    from scipy.optimize import Bounds, NonlinearConstraint
    from cobyqa.problem import (ObjectiveFunction, BoundConstraints, LinearConstraints, NonlinearConstraints, Problem)
    state = {"f": 0.0, "c": 0.0}

    def fun(x):
        return state["f"]

    def con(x):
        return np.array([state["c"]])

    n = 2
    obj = ObjectiveFunction(fun, False, False)
    bounds = BoundConstraints(Bounds(np.full(n, -np.inf), np.full(n, np.inf)))
    linear = LinearConstraints([], n, False)
    nonlinear = NonlinearConstraints([NonlinearConstraint(con, np.array([-np.inf]), np.array([0.0]))], False, False)
    size = h["filter_size"]
    import sys
    pb = Problem(obj, np.zeros(n), bounds, linear, nonlinear, None, float(h["tol"]), False, False, 1,
                 sys.maxsize if size is None else int(size), False)
    tol = h["tol"]
    allrep = []          # (f, v, idx)
    kept = []            # reference retention (all-finite histories)
    finite_hist = True
    for k, (f, c, pens) in enumerate(h["ops"]):
        state["f"], state["c"] = f, c
        x = np.array([float(k + 1), 0.0])
        pb(x)
        v = c if c != c else max(c, 0.0)
        allrep.append((f, v, k))
        st["filter.ops"] += 1
        if not (math.isfinite(f) and math.isfinite(v)):
            finite_hist = False
        if finite_hist:
            kept = ref_retention(kept, (f, v, k), size)
        for pen in pens:
            xb, fb, vb = pb.best_eval(pen)
            fb, vb = float(fb), float(vb)
            st["filter.queries"] += 1
            # the returned point must be one of the points that produced the returned pair
            idx = int(round(float(xb[0]))) - 1
            if not (0 <= idx <= k and _beq(allrep[idx][0], fb) and _beq(allrep[idx][1], vb)):
                return [Viol("C03", "pair_point", "after reply %d best_eval returned point %r with (fun=%r, maxcv=%r) "
                             "which is not what that point replied" % (k + 1, list(xb), fb, vb), key="pair_point")]
            if finite_hist:
                st["filter.full_rule_checked"] += 1
                want = ref_select(kept, pen, tol)
                if not (want[0] == fb and want[1] == vb):
                    return [Viol("C03", "rule", "after reply %d (penalty %r, filter_size %r) best_eval returned "
                                 "(fun=%r, maxcv=%r); the documented rule selects (fun=%r, maxcv=%r)"
                                 % (k + 1, pen, size, fb, vb, want[0], want[1]),
                                 key="rule:" + ("feasible" if want[1] <= tol else "merit"))]
            elif size is None:
                st["filter.clauses_checked"] += 1
                feas = [e for e in allrep if _defined(e[1]) and e[1] <= tol and _defined(e[0])]
                if feas:
                    fmin = min(e[0] for e in feas)
                    if not (vb == vb and vb <= tol and fb == fb):
                        return [Viol("C03", "feasible_first", "after reply %d a feasible reply with defined objective "
                                     "(fun=%r) exists but best_eval returned (fun=%r, maxcv=%r)" % (k + 1, fmin, fb, vb),
                                     key="feasible_first")]
                    if fb > fmin:
                        return [Viol("C03", "least_feasible", "after reply %d best_eval returned fun=%r, a feasible "
                                     "reply has fun=%r" % (k + 1, fb, fmin), key="least_feasible")]
                else:
                    full = [e for e in allrep if _defined(e[0]) and _defined(e[1])]
                    if full and not (fb == fb and vb == vb):
                        return [Viol("C03", "nan_preferred", "after reply %d best_eval returned an undefined pair "
                                     "(fun=%r, maxcv=%r) although fully defined replies exist" % (k + 1, fb, vb),
                                     key="nan_preferred")]
                    if fb == fb and vb == vb:
                        for e in full:
                            if e[0] < fb and e[1] < vb:
                                return [Viol("C03", "dominated", "after reply %d best_eval returned (fun=%r, maxcv=%r) "
                                             "which is dominated by reply (fun=%r, maxcv=%r)" % (k + 1, fb, vb, e[0], e[1]),
                                             key="dominated")]
            else:
                st["filter.unpinned_skipped"] += 1
    return []


def filter_case(seed, idx, tier):
    cr = CaseResult()
    per = 25
    for j in range(per):
        rng = Rng(seed, "filter", idx, j)
        h = gen_history(rng)
        vs = run_history(h, cr.stats)
        cr.worlds += 1
        cr.evals += len(h["ops"])
        cr.events += 2 * len(h["ops"])
        nonfin = any(not (math.isfinite(o[0]) and math.isfinite(o[1])) for o in h["ops"])
        if len(h["ops"]) > 1:
            cr.sigs.add((len(h["ops"]), h["filter_size"], h["tol"], nonfin,
                         tuple(sorted(set((o[0] != o[0], o[1] != o[1], abs(o[0]) == INF) for o in h["ops"])))))
        cr.stats["filter.histories_nonfinite" if nonfin else "filter.histories_finite"] += 1
        if nonfin:
            cr.fired["nan/inf reply"] += sum(1 for o in h["ops"] if not (math.isfinite(o[0]) and math.isfinite(o[1])))
        cr.add_viols(vs, {"engine": "filter_machine", "history": h})
        if cr.sample is None and j == 0:
            cr.sample = {"history": {"tol": h["tol"], "filter_size": h["filter_size"], "ops": h["ops"][:6]}}
    return cr


def replay(p):
    return run_history(p["history"])


def minimise(p):
    """ddmin-style: drop ops one at a time (and query penalties) while the same violation persists."""
    exp = p["expect"]

    def same(q):
        try:
            return any(v.prop == exp["prop"] and v.clause == exp["clause"] and v.key == exp["key"] for v in replay(q))
        except Exception:
            return False

    cur = copy.deepcopy(p)
    if not same(cur):
        return p
    runs = 0
    changed = True
    while changed and runs < 400:
        changed = False
        ops = cur["history"]["ops"]
        for i in range(len(ops) - 1, -1, -1):
            q = copy.deepcopy(cur)
            q["history"]["ops"].pop(i)
            runs += 1
            if q["history"]["ops"] and same(q):
                cur = q
                changed = True
                break
    if cur["history"]["filter_size"] is not None:
        q = copy.deepcopy(cur)
        q["history"]["filter_size"] = None
        if same(q):
            cur = q
    cur["minimised"] = {"candidate_runs": runs}
    return cur
