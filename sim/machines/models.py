"""Models machine (C12): a real cobyqa Models object on a real Problem is driven
with a seeded history of point replacements, base shifts and resets (plus
barrier-magnitude replies and eigh failures as faults); after EVERY operation
the interpolation conditions, the twin consistency, the structural sanity and
the recorded values are checked."""
import copy
import math
import sys
from collections import Counter

import numpy as np

from ..rng import Rng
from ..oracles.common import Viol
from ..engines import CaseResult
from ..funcs import eval_scalar
from ..probes import kkt_cond
from .. import scenario, probes, refmodel

EPS = float(np.finfo(float).eps)
KAPPA_MAX = 1e6


def gen_history(rng):
    n = rng.wpick([(2, 1), (4, 2), (3, 3), (2, 4), (1, 5)])
    lo, hi = n + 1, (n + 1) * (n + 2) // 2
    npt = rng.pick([lo, hi, min(hi, 2 * n + 1), rng.randint(lo, hi)])
    fam = rng.wpick([(4, "quad"), (2, "cubic"), (2, "rosen"), (1, "abs"), (1, "maxaff"), (1, "linear")])
    obj = scenario.gen_family(rng, fam, n)
    vscale = rng.pick([1e-3, 1.0, 1.0, 1e3])
    obj["sign"] = vscale
    twin = rng.chance(0.6)
    cons = []
    if twin:
        cons = [{"kind": "ub", "comps": [dict(obj)]}, {"kind": "eq", "comps": [dict(obj)]}]
    else:
        for _ in range(rng.randint(0, 2)):
            cons.append({"kind": "ub", "comps": [scenario.gen_family(rng, rng.pick(["ball", "affine", "product", "sine"]), n)]})
        for _ in range(rng.randint(0, 2)):
            cons.append({"kind": "eq", "comps": [scenario.gen_family(rng, rng.pick(["ball", "affine", "product"]), n)]})
    radius = rng.pick([1e-3, 0.1, 1.0, 1.0, 10.0])
    x0 = [rng.nice(-2, 2) for _ in range(n)]
    poised = rng.chance(0.6)
    nops = rng.randint(1, 60)
    ops = []
    for _ in range(nops):
        kind = rng.wpick([(8, "replace"), (1.5, "shift"), (1, "reset")])
        if kind == "replace":
            how = rng.wpick([(6, "random"), (1, "near_dup"), (0.5, "dup"), (1, "collinear"), (0.7, "far"), (0.7, "mirror")]) \
                if not poised else rng.wpick([(8, "random"), (1, "far"), (1, "mirror")])
            ops.append({"op": "replace", "k": rng.randrange(npt), "how": how,
                        "u": [rng.uniform(-1, 1) for _ in range(n)], "a": rng.randrange(npt), "b": rng.randrange(npt),
                        "t": rng.uniform(-1.5, 2.5), "r": rng.pick([0.25, 1.0, 2.0, 3.0])})
        elif kind == "shift":
            ops.append({"op": "shift", "to": rng.pick(["point", "arbitrary"]), "k": rng.randrange(npt),
                        "u": [rng.uniform(-1, 1) for _ in range(n)]})
        else:
            ops.append({"op": "reset"})
    faults = []
    if rng.chance(0.3):
        for _ in range(rng.randint(1, 3)):
            faults.append({"kind": rng.pick(["nan", "pinf", "huge", "ninf"]), "at": rng.randint(1, npt + nops)})
    if rng.chance(0.12):
        faults.append({"kind": "linalg", "at": rng.randint(1, 6 * (npt + nops))})
    return {"n": n, "npt": npt, "obj": obj, "cons": cons, "twin": twin, "radius": radius, "x0": x0,
            "poised": poised, "ops": ops, "faults": faults}


def cond2(xpt, radius):
    """Poisedness of a set: the worse of the scale-invariant conditioning and the
    conditioning measured against the trust-region length."""
    return max(kkt_cond(xpt), kkt_cond(xpt, scale=max(radius, 1e-300)))


class _Ctx:
    """Minimal client context so that the eigh fault seam of probes.py works."""

    def __init__(self, faults):
        self.probe = None
        self.in_probe = 0
        self.linalg_faults = [{"kind": "linalg", "fn": "eigh", "at": f["at"]} for f in faults if f["kind"] == "linalg"]
        self.linalg_calls = {}
        self.eval_idx = 0
        self.poison = None
        self.poison_calls = 0
        self.knobs = []
        self.fired = {}
        self.events = []

    def fire(self, k):
        self.fired[k] = self.fired.get(k, 0) + 1

    def log(self, ev):
        self.events.append(ev)


def run_history(h, st=None):
    st = st if st is not None else Counter()
    from scipy.optimize import Bounds, NonlinearConstraint
    from cobyqa.problem import (ObjectiveFunction, BoundConstraints, LinearConstraints, NonlinearConstraints, Problem)
    from cobyqa.models import Models
    from cobyqa.main import _set_default_options
    import cobyqa  # noqa
    probes.install(cobyqa)
    n, npt = h["n"], h["npt"]
    calls = {"n": 0}
    log = {}                     # x bytes -> raw replies (fun, [con...])
    reply_faults = {f["at"]: f["kind"] for f in h["faults"] if f["kind"] != "linalg"}
    FV = {"nan": math.nan, "pinf": math.inf, "ninf": -math.inf, "huge": 1e300}

    def fun(x):
        xa = np.array(x, dtype=float)
        calls["n"] += 1
        v = eval_scalar(h["obj"], xa.tolist(), xa.tobytes())
        fk = reply_faults.get(calls["n"])
        if fk:
            v = FV[fk]
            st["models.reply_faults_fired"] += 1
        log["last"] = [xa.tobytes(), v]
        log.setdefault("order", []).append(log["last"])
        return v

    def mk_con(j, spec):
        def con(x):
            xa = np.array(x, dtype=float)
            v = eval_scalar(spec["comps"][0], xa.tolist(), xa.tobytes())
            if h["twin"] and log.get("last") and log["last"][0] == xa.tobytes():
                v = log["last"][1]       # bit-identical data, faults included
            return np.array([v])
        return con

    nlcs = []
    for j, cs in enumerate(h["cons"]):
        if cs["kind"] == "ub":
            nlcs.append(NonlinearConstraint(mk_con(j, cs), np.array([-np.inf]), np.array([0.0])))
        else:
            nlcs.append(NonlinearConstraint(mk_con(j, cs), np.array([0.0]), np.array([0.0])))
    obj = ObjectiveFunction(fun, False, False)
    bounds = BoundConstraints(Bounds(np.full(n, -np.inf), np.full(n, np.inf)))
    linear = LinearConstraints([], n, False)
    nonlinear = NonlinearConstraints(nlcs, False, False)
    pb = Problem(obj, np.array(h["x0"], dtype=float), bounds, linear, nonlinear, None, 1e-8, False, False, 1,
                 sys.maxsize, False)
    options = {"radius_init": float(h["radius"]), "radius_final": float(h["radius"]) * 1e-6, "nb_points": npt,
               "maxfev": 10 ** 6}
    _set_default_options(options, n)
    ctx = _Ctx(h["faults"])
    probes.push(ctx)
    try:
        return _drive(h, st, pb, options, Models, log, ctx)
    finally:
        probes.pop()


def _check(models, h, st, opname, kappa, S, log, k_new=None, x_new=None):
    itp = models.interpolation
    npt = itp.npt
    tabs = [models.fun_val, models.cub_val, models.ceq_val]
    finite = all(np.all(np.isfinite(t)) for t in tabs)
    if not finite:
        return [Viol("C12", "c", "after %s the value tables are not finite" % opname, key="tables")]
    # c: structural sanity of the views
    p = itp.point(0)
    v = np.ones(itp.n)
    views = [models.fun(p), models.fun_grad(p), models.fun_hess(), models.fun_hess_prod(v), models.fun_curv(v),
             models.cub(p), models.ceq(p), models.cub_grad(p), models.ceq_grad(p)]
    if not all(np.all(np.isfinite(np.asarray(a, dtype=float))) for a in views):
        return [Viol("C12", "c", "after %s a model view (value/grad/hess/hess_prod/curv) is not finite although the "
                     "tables are" % opname, key="views")]
    st["models.c_checked"] += 1
    e_fun, e_cub, e_ceq = probes._interp_errors(models)
    errs = [("objective", float(e_fun))] + [("cub%d" % i, float(x)) for i, x in enumerate(e_cub)] + \
           [("ceq%d" % i, float(x)) for i, x in enumerate(e_ceq)]
    xpt_ = np.array(itp.xpt, dtype=float)
    set_scale = float(np.max(np.linalg.norm(xpt_, axis=0), initial=0.0))
    if kappa <= KAPPA_MAX and h["poised"] and set_scale > 0.0:
        resolve = 1.0 + float(np.max(np.abs(xpt_ + np.array(itp.x_base, dtype=float)[:, None]))) / set_scale
        bound = 1e4 * EPS * kappa * npt * S * resolve
        st["models.a_checked"] += 1
        for name, x in errs:
            if not (x <= bound):
                return [Viol("C12", "a", "after %s the %s model misses a recorded value by %.3g (bound %.3g, cond %.3g)"
                             % (opname, name, x, bound, kappa), key="interp:" + ("fun" if name == "objective" else "con"))]
    else:
        st["models.a_skipped_illposed"] += 1
    same_data = all(np.array_equal(models.fun_val, t[:, i]) for t in (models.cub_val, models.ceq_val)
                    for i in range(t.shape[1]))
    if h["twin"] and not same_data:
        # e.g. a one-shot fault hit the objective while the constraint reply came from scipy's one-entry
        # cache: from here on the three models have seen different data and the twin relation is void
        log["twin_broken"] = True
    if h["twin"] and log.get("twin_broken"):
        st["models.b_skipped_data_differ"] += 1
    if h["twin"] and not log.get("twin_broken"):
        E = float(e_fun)
        scale = max(1.0, float(np.max(np.abs(models.fun_val))))
        st["models.b_checked"] += 1
        for name, x in errs[1:]:
            if not (x <= 10.0 * E + 1e-7 * scale):
                return [Viol("C12", "b", "after %s the twin %s model (same data as the objective) has interpolation "
                             "error %.3g vs %.3g for the objective model" % (opname, name, x, E), key="twin")]
    # d: recorded values are the barrier-clipped replies at those very points
    where = log["where"]
    for k in range(npt):
        rec = where[k]
        st["models.d_checked"] += 1
        if refmodel.clip_barrier(float(rec[1])) != float(models.fun_val[k]):
            return [Viol("C12", "d", "after %s the value recorded for interpolation point %d is %r, the objective "
                         "replied %r there" % (opname, k, float(models.fun_val[k]), rec[1]),
                         key="recorded_value")]
        xk = np.frombuffer(rec[0], dtype=float)
        pk = np.array(itp.point(k), dtype=float)
        if np.any(np.abs(xk - pk) > 1e-9 * np.maximum(1.0, np.abs(xk)) + 1e-12 * float(h["radius"]) * 1e3 + 64 * EPS * np.max(np.abs(np.array(itp.x_base)))):
            return [Viol("C12", "d", "after %s interpolation point %d is %r but its value was measured at %r"
                         % (opname, k, pk.tolist(), xk.tolist()), key="recorded_elsewhere")]
    return []


def _drive(h, st, pb, options, Models, log, ctx):
    n, npt = h["n"], h["npt"]
    try:
        models = Models(pb, options, 0.0)
    except np.linalg.LinAlgError:
        st["models.init_linalg"] += 1
        return []
    itp = models.interpolation
    log["where"] = list(log["order"][:npt])
    kappa = cond2(np.array(itp.xpt, dtype=float), float(options["radius_init"]))
    S = max(1.0, float(np.max(np.abs(models.fun_val))),
            float(np.max(np.abs(models.cub_val), initial=0.0)), float(np.max(np.abs(models.ceq_val), initial=0.0)))
    vs = _check(models, h, st, "the initial sampling", kappa, S, log)
    st["models.ops_init"] += 1
    if vs:
        return vs
    radius = float(options["radius_init"])
    for i, op in enumerate(h["ops"]):
        name = "op %d (%s)" % (i + 1, op["op"])
        try:
            if op["op"] == "replace":
                k = op["k"] % npt
                base = np.array(itp.x_base, dtype=float)
                u = np.array(op["u"], dtype=float)
                how = op["how"]
                if how == "random":
                    x_new = itp.point(op["a"] % npt) + op["r"] * radius * u
                elif how == "near_dup":
                    other = (k + 1 + op["a"] % max(npt - 1, 1)) % npt
                    x_new = itp.point(other) * (1.0 + 1e-9) + 1e-9 * radius * u
                elif how == "dup":
                    other = (k + 1 + op["a"] % max(npt - 1, 1)) % npt
                    x_new = np.array(itp.point(other), dtype=float)
                elif how == "mirror":
                    # the mirror image of the replaced point through the base: same distance, different point
                    x_new = 2.0 * base - itp.point(k)
                elif how == "collinear":
                    pa, pb_ = itp.point(op["a"] % npt), itp.point(op["b"] % npt)
                    x_new = pa + op["t"] * (pb_ - pa)
                else:
                    x_new = base + (30.0 if h["poised"] else 1e3) * radius * u
                x_new = np.array(x_new, dtype=float)
                if h["poised"]:
                    # the generator keeps the set poised: reject candidates that push the conditioning too high
                    trial = np.array(itp.xpt, dtype=float)
                    trial[:, k] = x_new - base
                    if cond2(trial, radius) > KAPPA_MAX:
                        st["models.replace_rejected_for_poisedness"] += 1
                        continue
                fun_val, cub_val, ceq_val = pb(x_new)
                pred = [abs(float(models.fun(x_new)))] + [abs(float(t)) for t in models.cub(x_new)] + \
                       [abs(float(t)) for t in models.ceq(x_new)]
                S = max([S, abs(float(fun_val))] + [abs(float(t)) for t in cub_val] + [abs(float(t)) for t in ceq_val]
                        + [t for t in pred if math.isfinite(t)])
                log["where"][k] = log["order"][-1]
                ill = models.update_interpolation(k, x_new, fun_val, cub_val, ceq_val)
                st["models.ops_replace"] += 1
                st["models.how_" + how] += 1
                if ill:
                    st["models.ops_ill_conditioned"] += 1
                kappa = max(kappa, cond2(np.array(itp.xpt, dtype=float), radius))
                vs = _check(models, h, st, name + " of point %d by a %s point" % (k, how), kappa, S, log, k, x_new)
            elif op["op"] == "shift":
                if op["to"] == "point":
                    nb = np.array(itp.point(op["k"] % npt), dtype=float)
                else:
                    nb = np.array(itp.x_base, dtype=float) + radius * np.array(op["u"], dtype=float)
                models.shift_x_base(nb, options)
                st["models.ops_shift"] += 1
                kappa = max(kappa, cond2(np.array(itp.xpt, dtype=float), radius))
                vs = _check(models, h, st, name, kappa, S, log)
            else:
                models.reset_models()
                st["models.ops_reset"] += 1
                vs = _check(models, h, st, name, kappa, S, log)
        except np.linalg.LinAlgError:
            # main.py ends the run here; nothing is required of the (possibly torn) state
            st["models.ended_by_linalg"] += 1
            return []
        except Exception as e:
            # any other exception out of a models operation leaves the models unusable
            return [Viol("C12", "c", "%s raised %s: %s" % (name, type(e).__name__, str(e)[:120]),
                         key="op_raises:" + type(e).__name__)]
        if vs:
            return vs
    return []


def models_case(seed, idx, tier):
    cr = CaseResult()
    per = 6
    for j in range(per):
        rng = Rng(seed, "models", idx, j)
        h = gen_history(rng)
        vs = run_history(h, cr.stats)
        cr.worlds += 1
        cr.evals += h["npt"] + len(h["ops"])
        cr.events += h["npt"] + len(h["ops"])
        if h["ops"]:
            cr.sigs.add((h["n"], h["npt"], h["twin"], h["poised"], len(h["cons"]), h["obj"]["fam"],
                         tuple(sorted(set(o.get("how", o["op"]) for o in h["ops"]))), len(h["faults"]) > 0))
        for f in h["faults"]:
            cr.fired["configured:" + f["kind"]] += 1
        cr.add_viols(vs, {"engine": "models_machine", "history": h})
        if cr.sample is None and j == 0:
            s = dict(h)
            s["ops"] = h["ops"][:4]
            cr.sample = {"history": s}
    return cr


def replay(p):
    return run_history(p["history"])


def minimise(p):
    exp = p["expect"]

    def same(q):
        try:
            return any(v.prop == exp["prop"] and v.clause == exp["clause"] and v.key == exp["key"] for v in replay(q))
        except Exception:
            return False

    cur = copy.deepcopy(p)
    if not same(cur):
        return p
    runs = 0
    changed = True
    while changed and runs < 300:
        changed = False
        for i in range(len(cur["history"]["ops"]) - 1, -1, -1):
            q = copy.deepcopy(cur)
            q["history"]["ops"].pop(i)
            runs += 1
            if same(q):
                cur = q
                changed = True
                break
        if not changed:
            for i in range(len(cur["history"]["faults"]) - 1, -1, -1):
                q = copy.deepcopy(cur)
                q["history"]["faults"].pop(i)
                runs += 1
                if same(q):
                    cur = q
                    changed = True
                    break
    cur["minimised"] = {"candidate_runs": runs}
    return cur
