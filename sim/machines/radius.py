"""Radius machine (C18): a real TrustRegion on a trivial statement is driven with a
seeded history of the four ways main.py changes the radius / resolution; the
order relation, monotonicity and the bound on the number of reductions are
checked after EVERY operation."""
import copy
import math
import sys
from collections import Counter

import numpy as np

from ..rng import Rng
from ..oracles.common import Viol
from ..engines import CaseResult
from .. import scenario


def gen_history(rng):
    ri = rng.loguniform(1e-15, 1e15) if rng.chance(0.5) else rng.pick([0.1, 0.3, 1.0, 2.0])
    rf = rng.wpick([(1, ri), (1, 0.0), (6, ri * 10.0 ** (-rng.uniform(0.0, 12.0))), (2, ri * rng.pick([1e-1, 1e-3, 1e-6]))])
    rf = min(rf, ri)
    consts = {}
    if rng.chance(0.8):
        consts["decrease_resolution_factor"] = rng.pick([0.001, 0.01, 0.1, 0.5, 0.9, round(rng.uniform(0.001, 0.99), 4)])
    if rng.chance(0.6):
        L = rng.pick([1.5, 4.0, 16.0, 250.0, 1e4, round(rng.uniform(1.01, 1000.0), 2)])
        consts["large_resolution_threshold"] = L
        if rng.chance(0.6):
            consts["moderate_resolution_threshold"] = rng.pick([L, 1.01, round(rng.uniform(1.01, L), 3)])
    if rng.chance(0.5):
        consts["decrease_radius_factor"] = rng.pick([0.05, 0.25, 0.5, 0.9])
    if rng.chance(0.3):
        f = rng.pick([1.1, 1.5, 2.0, 4.0])
        consts["increase_radius_factor"] = f
        if rng.chance(0.5):
            consts["decrease_radius_threshold"] = round(rng.uniform(1.001, f - 1e-3), 4)
    if rng.chance(0.3):
        consts["increase_radius_threshold"] = rng.pick([1.01, 2.0, 5.0])
    if rng.chance(0.3):
        lo = rng.pick([0.01, 0.1, 0.5])
        consts["low_ratio"] = lo
        consts["high_ratio"] = rng.pick([lo, 0.7, 0.99]) if lo <= 0.7 else lo
        if consts["high_ratio"] < lo:
            consts["high_ratio"] = lo
    ops = []
    for _ in range(rng.randint(1, 200)):
        kind = rng.wpick([(5, "update"), (2, "short"), (3, "enhance")])
        if kind == "update":
            base = rng.pick(["-1e6", "-1", "0", "low", "high", "1", "1e6"])
            ops.append({"op": "update", "ratio": base, "ulp": rng.pick([-1, 0, 0, 1]),
                        "snorm": 10.0 ** rng.uniform(-6.0, 6.0)})
        elif kind == "short":
            ops.append({"op": "short"})
        else:
            ops.append({"op": "enhance"})
    return {"radius_init": ri, "radius_final": rf, "constants": consts, "ops": ops}


def run_history(h, st=None):
    st = st if st is not None else Counter()
    from scipy.optimize import Bounds
    from cobyqa.problem import (ObjectiveFunction, BoundConstraints, LinearConstraints, NonlinearConstraints, Problem)
    from cobyqa.framework import TrustRegion
    from cobyqa.main import _set_default_options, _set_default_constants
    n = 2

    def fun(x):
        return float(x[0] * x[0] + x[1] * x[1])

    obj = ObjectiveFunction(fun, False, False)
    bounds = BoundConstraints(Bounds(np.full(n, -np.inf), np.full(n, np.inf)))
    linear = LinearConstraints([], n, False)
    nonlinear = NonlinearConstraints([], False, False)
    pb = Problem(obj, np.zeros(n), bounds, linear, nonlinear, None, 1e-8, False, False, 1, sys.maxsize, False)
    options = {"radius_init": float(h["radius_init"]), "radius_final": float(h["radius_final"]), "maxfev": 10 ** 6}
    _set_default_options(options, n)
    constants = _set_default_constants(**h["constants"])
    try:
        tr = TrustRegion(pb, options, constants)
    except np.linalg.LinAlgError:
        st["radius.init_linalg"] += 1
        return []
    rhoend = float(options["radius_final"])
    f = float(constants["decrease_resolution_factor"])
    L = float(constants["large_resolution_threshold"])
    M = float(constants["moderate_resolution_threshold"])
    nred = 0

    def check(name, prev_res):
        r, rho = float(tr.radius), float(tr.resolution)
        st["radius.checks"] += 1
        if not (rhoend <= rho <= r):
            return [Viol("C18", "a", "after %s: radius_final=%r <= resolution=%r <= radius=%r fails" % (name, rhoend, rho, r),
                         key="order:" + ("below_final" if rho < rhoend else "radius_below_resolution"))]
        if rho > prev_res:
            return [Viol("C18", "b", "after %s the resolution increased from %r to %r" % (name, prev_res, rho), key="increase")]
        return []

    vs = check("initialisation", float(tr.resolution))
    if vs:
        return vs
    if rhoend > 0:
        r0 = float(tr.resolution) / rhoend
        b1 = math.ceil(math.log(max(r0 / L, 1.0)) / math.log(1.0 / f)) if r0 > L else 0
        b2 = math.ceil(math.log2(max(math.log(L) / math.log(M), 1.0))) if L > M else 0
        bound = b1 + b2 + 2
    else:
        bound = None
    for i, op in enumerate(h["ops"]):
        prev = float(tr.resolution)
        name = "op %d (%s)" % (i + 1, op["op"])
        if op["op"] == "update":
            base = {"-1e6": -1e6, "-1": -1.0, "0": 0.0, "1": 1.0, "1e6": 1e6,
                    "low": float(constants["low_ratio"]), "high": float(constants["high_ratio"])}[op["ratio"]]
            ratio = base
            if op["ulp"] > 0:
                ratio = math.nextafter(base, math.inf)
            elif op["ulp"] < 0:
                ratio = math.nextafter(base, -math.inf)
            s = float(tr.radius) * op["snorm"]
            if not math.isfinite(s):
                s = float(tr.radius)
            tr.update_radius(np.array([s, 0.0]), ratio)
            st["radius.ops_update"] += 1
        elif op["op"] == "short":
            tr.radius *= constants["decrease_resolution_factor"]
            st["radius.ops_short"] += 1
        else:
            if not (float(tr.resolution) > rhoend):
                st["radius.enhance_skipped_at_final"] += 1
                continue      # main.py stops with status 0 here
            tr.enhance_resolution(options)
            nred += 1
            st["radius.ops_enhance"] += 1
            if bound is not None and nred > bound:
                return [Viol("C18", "g", "%d resolution reductions from ratio %r, bound %d" % (nred, r0, bound),
                             key="too_many_reductions")]
        vs = check(name, prev)
        if vs:
            return vs
    if bound is not None:
        st["radius.g_checked"] += 1
    return []


def radius_case(seed, idx, tier):
    cr = CaseResult()
    for j in range(12):
        rng = Rng(seed, "radius", idx, j)
        h = gen_history(rng)
        vs = run_history(h, cr.stats)
        cr.worlds += 1
        cr.evals += 5
        cr.events += len(h["ops"])
        if len(h["ops"]) > 1:
            ratio = h["radius_init"] / h["radius_final"] if h["radius_final"] > 0 else math.inf
            cr.sigs.add((round(math.log10(h["radius_init"])), "inf" if ratio == math.inf else round(math.log10(ratio)),
                         tuple(sorted(h["constants"])), len(h["ops"]) // 20))
        cr.add_viols(vs, {"engine": "radius_machine", "history": h})
        if cr.sample is None and j == 0:
            s = dict(h)
            s["ops"] = h["ops"][:5]
            cr.sample = {"history": s}
    return cr


def replay(p):
    return run_history(p["history"])


def minimise(p):
    exp = p["expect"]

    def same(q):
        try:
            return any(v.prop == exp["prop"] and v.clause == exp["clause"] and v.key == exp["key"] for v in replay(q))
        except Exception:
            return False

    cur = copy.deepcopy(p)
    if not same(cur):
        return p
    runs = 0
    changed = True
    while changed and runs < 400:
        changed = False
        for i in range(len(cur["history"]["ops"]) - 1, -1, -1):
            q = copy.deepcopy(cur)
            q["history"]["ops"].pop(i)
            runs += 1
            if same(q):
                cur = q
                changed = True
                break
        if not changed:
            for key in sorted(cur["history"]["constants"]):
                q = copy.deepcopy(cur)
                del q["history"]["constants"][key]
                runs += 1
                if same(q):
                    cur = q
                    changed = True
                    break
    cur["minimised"] = {"candidate_runs": runs}
    return cur
