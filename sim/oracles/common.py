"""Helpers shared by the per-property oracles."""
import math
import struct

import numpy as np

from .. import refmodel
from ..scenario import fixed_mask, bounds_consistent, n_free_of

SQRT_EPS = math.sqrt(float(np.finfo(float).eps))


class Viol:
    """One violation: property, clause, human message, and a match key used by
    the known-findings protocol (exception type + innermost cobyqa frame for
    crashes, a root-cause tag otherwise)."""

    def __init__(self, prop, clause, msg, key=None, data=None):
        self.prop = prop
        self.clause = clause
        self.msg = msg
        self.key = key or clause
        self.data = data or {}

    def sig(self):
        return (self.prop, self.clause, self.key)

    def __repr__(self):
        return "Viol(%s.%s key=%s: %s)" % (self.prop, self.clause, self.key, self.msg)


def unpack(xb):
    return list(struct.unpack("<%dd" % (len(xb) // 8), xb))


def opt(stmt, name, default=None):
    o = stmt.get("options") or {}
    return o.get(name, default)


def feas_tol(stmt):
    return float(opt(stmt, "feasibility_tol", SQRT_EPS))


def consistent(stmt):
    b = stmt.get("bounds")
    return b is None or bounds_consistent(b["lb"], b["ub"])


def clean_bounds(stmt):
    """(lb, ub) with NaN replaced by -inf/+inf, or None."""
    b = stmt.get("bounds")
    n = stmt["n"]
    if b is None:
        return [-math.inf] * n, [math.inf] * n
    lb = [-math.inf if v != v else v for v in b["lb"]]
    ub = [math.inf if v != v else v for v in b["ub"]]
    return lb, ub


class Eval:
    __slots__ = ("idx", "x", "xl", "fun", "con", "cb", "kind", "raised", "group", "fault")


def eval_table(rec):
    """List of Eval (one per evaluation group) and the strays."""
    groups, strays = rec.evaluations()
    has_obj = rec.stmt.get("obj") is not None
    last_con = {}
    out = []
    for gi, g in enumerate(groups):
        e = Eval()
        e.idx = gi + 1
        e.group = g
        e.kind = g.get("kind")
        e.raised = g.get("raised", False)
        first = (g["obj"] + g["con"])
        e.x = first[0]["x"] if first else None
        if e.x is None and last_con:
            # every constraint call was answered from the one-entry cache: the
            # point is identical to the one of the most recent call
            e.x = max(last_con.values(), key=lambda c: c["seq"])["x"]
        e.xl = unpack(e.x) if e.x is not None else None
        e.fun = g["obj"][0]["v"] if g["obj"] else (0.0 if not has_obj else None)
        e.fault = bool(g["obj"] and g["obj"][0]["f"]) or any(any(c["f"]) for c in g["con"])
        e.con = {}
        for c in g["con"]:
            if c["j"] not in e.con:
                e.con[c["j"]] = c["v"]
            last_con[c["j"]] = c
        nnl = len(rec.stmt.get("nonlinear") or [])
        for j in range(nnl):
            if j not in e.con and j in last_con and e.x is not None and last_con[j]["x"] == e.x:
                e.con[j] = last_con[j]["v"]
        e.cb = g["cb"][0] if g["cb"] else None
        out.append(e)
    return out, strays


def V_of(rec, ev):
    """Reference violation of an evaluation: (V, scale, has_nan)."""
    return refmodel.violation(rec.stmt, ev.xl, ev.con)


def near_tol(v, tol, rel=1e-9):
    """Feasibility is ambiguous when the violation is within rounding of the tolerance."""
    return abs(v - tol) <= rel * max(1.0, abs(v), abs(tol))


def beq(a, b):
    """Bit equality of floats, NaN equal to NaN, +0 == -0 distinguished not."""
    if a != a and b != b:
        return True
    return a == b


def ulp_close(a, b, ulps=4):
    if a == b:
        return True
    if a != a or b != b or math.isinf(a) or math.isinf(b):
        return False
    return abs(a - b) <= ulps * max(math.ulp(a), math.ulp(b))


def x_matches(xa, xb_list, ulps=4):
    return len(xa) == len(xb_list) and all(ulp_close(float(p), float(q), ulps) for p, q in zip(xa, xb_list))
