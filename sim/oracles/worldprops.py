"""Oracles evaluated over the recorded history of one client (one Record).

Every function returns a list of Viol and updates `st` (a Counter of what was
evaluated / skipped as ambiguous).  A *guard* is a stated condition under which
a clause is not evaluated; guards exist only to keep a check from demanding
more than the property says.
"""
import math
import re

import numpy as np

from .. import refmodel
from .common import (Viol, eval_table, V_of, opt, feas_tol, consistent, clean_bounds, near_tol, beq,
                     ulp_close, x_matches, unpack, fixed_mask, n_free_of, SQRT_EPS)

BARRIER = refmodel.BARRIER
EPS = float(np.finfo(float).eps)


# ---------------------------------------------------------------------------
# C01 bounds never violated where the user can observe
# ---------------------------------------------------------------------------
def c01(rec, st):
    out = []
    stmt = rec.stmt
    if not consistent(stmt):
        st["c01.skip_inconsistent"] += 1
        return out
    lb, ub = clean_bounds(stmt)
    b = stmt.get("bounds")
    n = stmt["n"]
    fm = fixed_mask(lb, ub)
    exact_fixed = [lb[i] == ub[i] for i in range(n)]
    near_vals = {}

    def check_point(x, where):
        if len(x) != n:
            out.append(Viol("C01", "a", "%s received a point of dimension %d, not %d" % (where, len(x), n),
                            key="dimension"))
            return
        for i in range(n):
            if not (lb[i] <= x[i] <= ub[i]):
                out.append(Viol("C01", "a", "%s: x[%d]=%r outside [%r, %r]" % (where, i, x[i], lb[i], ub[i]),
                                key="outside:" + where.split("#")[0]))
                return
        for i in range(n):
            if exact_fixed[i] and x[i] != lb[i]:
                out.append(Viol("C01", "b", "%s: fixed variable %d is %r, not %r" % (where, i, x[i], lb[i]),
                                key="fixed"))
                return
            if fm[i] and not exact_fixed[i]:
                near_vals.setdefault(i, set()).add(x[i])

    for e in rec.events:
        if e.get("probe"):
            continue
        if e["k"] == "obj":
            check_point(unpack(e["x"]), "objective#%d" % e["i"])
            st["c01.points"] += 1
        elif e["k"] == "con":
            check_point(unpack(e["x"]), "constraint%d#%d" % (e["j"], e["ncall"]))
            st["c01.points"] += 1
        elif e["k"] == "cb":
            if e["x"]:
                check_point(unpack(e["x"]), "callback#%d" % e["i"])
                st["c01.points"] += 1
        if len(out) > 3:
            break
    if rec.res is not None and rec.res.get("x") is not None:
        check_point([float(v) for v in rec.res["x"]], "result")
        st["c01.results"] += 1
    for i, vals in near_vals.items():
        if len(vals) > 1:
            out.append(Viol("C01", "b", "near-fixed variable %d took %d different values" % (i, len(vals)),
                            key="nearfixed"))
    # d: by construction (probe): the box the solver works in is the user's box (free variables; the unit box
    # under scaling), so that "inside the solver's box" means "inside the user's bounds"
    ps = rec.probe
    if ps is not None and ps.pbinfo is not None and ps.pbinfo["feasible"]:
        info = ps.pbinfo
        free = [i for i in range(n) if not fm[i]]
        if len(free) == info["xl"].size:
            scaled = bool(np.any(info["factor"] != 1.0) or np.any(info["shift"] != 0.0))
            want_l = [-1.0] * len(free) if scaled else [lb[i] for i in free]
            want_u = [1.0] * len(free) if scaled else [ub[i] for i in free]
            st["c01.d_box_checked"] += 1
            if [float(v) for v in info["xl"]] != want_l or [float(v) for v in info["xu"]] != want_u:
                out.append(Viol("C01", "d", "the solver works in the box [%r, %r] but the user's bounds on the free "
                                "variables are [%r, %r]" % (info["xl"].tolist(), info["xu"].tolist(), want_l, want_u),
                                key="internal_box"))
    # ... and the point handed to Problem.__call__ is inside that box up to rounding
    if ps is not None and ps.pbinfo is not None:
        for k, ev in enumerate(ps.evals):
            if "outside" in ev:
                st["c01.d_points"] += 1
                st["c01.d_kind_" + str(ev["kind"])] += 1
                if ev["outside"]:
                    out.append(Viol("C01", "d", "trial point #%d (%s step) leaves the box by %.3g before projection"
                                    % (k + 1, ev["kind"], ev["excess"]), key="preproj:" + str(ev["kind"]),
                                    data={"excess": ev["excess"], "kind": ev["kind"]}))
                    break
    elif ps is not None:
        st["c01.d_not_evaluated"] += 1
    return out


# ---------------------------------------------------------------------------
# C02 returned fun / maxcv are the true values at the returned x
# ---------------------------------------------------------------------------
def maxcv_allow(V, scale):
    return 1e-9 * (1.0 + abs(V) + scale)


def exact_violation(stmt):
    """Without linear constraints the reference violation is computed by the very same subtractions as the
    solver's (bounds, `lb - c`, `c - ub`): no rounding can differ, so no closeness-to-the-tolerance guard and no
    allowance is needed (e.g. feasibility_tol = 0 is then decided exactly)."""
    return not (stmt.get("linear") or [])


def ambiguous_feasibility(stmt, V, scale, tol):
    if exact_violation(stmt):
        return False
    return near_tol(V, tol) or (V > 0 and abs(V - tol) <= maxcv_allow(V, scale))


def find_eval_of_x(evals, x, ulps=4):
    """Indices of evaluations whose point equals x (bitwise first, then within ulps)."""
    xb = np.array(x, dtype=float).tobytes()
    exact = [e for e in evals if e.x == xb]
    if exact:
        return exact, True
    return [e for e in evals if e.xl is not None and x_matches(e.xl, list(x), ulps)], False


def args_clause(rec, prop, st):
    """Every user function is called with the extra arguments the user stated for it (otherwise the values
    the solver works with, and the violation it reports, are those of another problem)."""
    stmt = rec.stmt
    for e in rec.events:
        if e.get("probe"):
            continue
        if e["k"] == "obj":
            want = (stmt.get("obj") or {}).get("args") or []
        elif e["k"] == "con":
            ns = stmt["nonlinear"][e["j"]]
            want = (ns.get("args") or []) if ns.get("form") == "dict" else []
        else:
            continue
        st[prop.lower() + ".args_checked"] += 1
        if [float(a) for a in want] != e.get("args", []):
            name = "objective" if e["k"] == "obj" else "constraint function %d" % e["j"]
            return [Viol(prop, "args", "%s was called with extra arguments %r, the user stated %r"
                         % (name, e.get("args"), want), key="wrong_args")]
    return []


def c02(rec, st):
    out = args_clause(rec, "C02", st)
    if rec.res is None or out:
        return out
    res = rec.res
    stmt = rec.stmt
    evals, _ = eval_table(rec)
    if not evals:
        st["c02.no_evals"] += 1
        return out
    if res.get("x") is None or len(res["x"]) != stmt["n"]:
        out.append(Viol("C02", "a", "result x has wrong shape", key="shape"))
        return out
    cands, exact = find_eval_of_x(evals, res["x"])
    st["c02.results"] += 1
    if exact:
        st["c02.exact_x"] += 1
    if not cands:
        out.append(Viol("C02", "a", "returned x %r is not a point at which the functions were evaluated"
                        % (list(res["x"]),), key="x_not_evaluated"))
        return out
    has_obj = stmt.get("obj") is not None
    fun = res["fun"]
    okf = [e for e in cands if (e.fun is not None and beq(float(fun), float(e.fun)))] if has_obj else \
        [e for e in cands if float(fun) == 0.0]
    if not okf:
        out.append(Viol("C02", "b", "returned fun=%r but the objective replied %r at the returned x"
                        % (fun, [e.fun for e in cands][:3]), key="fun_not_raw"))
        return out
    # c: maxcv
    if not consistent(stmt):
        st["c02.skip_inconsistent"] += 1
        return out
    if refmodel.contradictory_limits(stmt):
        st["c02.skip_contradictory"] += 1
        return out
    good = False
    detail = None
    for e in okf:
        V, scale, has_nan = V_of(rec, e)
        if has_nan:
            # raw NaN constraint reply: only "not successful" is required
            st["c02.nan_guard"] += 1
            if not res["success"]:
                good = True
            else:
                detail = "success with an undefined violation"
            continue
        mc = float(res["maxcv"])
        if mc == V or (math.isfinite(V) and math.isfinite(mc) and abs(mc - V) <= maxcv_allow(V, scale)):
            good = True
            break
        detail = "returned maxcv=%r but the true violation at the returned x is %r" % (mc, V)
    if not good:
        out.append(Viol("C02", "c", detail or "maxcv mismatch", key="maxcv"))
    else:
        st["c02.maxcv_checked"] += 1
    return out


# ---------------------------------------------------------------------------
# C03 (world clause): returned point is the best evaluated, feasible first
# ---------------------------------------------------------------------------
def c03(rec, st):
    out = []
    if rec.res is None or not consistent(rec.stmt) or refmodel.contradictory_limits(rec.stmt):
        return out
    stmt = rec.stmt
    if opt(stmt, "filter_size") is not None:
        return c03_finite_filter(rec, st)
    evals, _ = eval_table(rec)
    if not evals:
        return out
    tol = feas_tol(stmt)
    pairs = []
    for e in evals:
        if e.fun is None:
            return out
        V, scale, has_nan = V_of(rec, e)
        if not has_nan and ambiguous_feasibility(stmt, V, scale, tol):
            st["c03.skip_near_tol"] += 1
            return out
        pairs.append((float(e.fun), V, scale))
    st["c03.worlds"] += 1
    res = rec.res
    rf, rv = float(res["fun"]), float(res["maxcv"])
    # the returned *point* is the best one: it must be an evaluated point that produced the returned values
    if res.get("x") is not None and len(res["x"]) == stmt["n"]:
        cands, _ = find_eval_of_x(evals, res["x"])
        if not cands:
            out.append(Viol("C03", "point", "the returned x %r is not one of the evaluated points" % (list(res["x"]),),
                            key="x_not_evaluated"))
            return out
        if stmt.get("obj") is not None and not any(c.fun is not None and beq(float(c.fun), rf) for c in cands):
            out.append(Viol("C03", "point", "the returned x was evaluated with objective %r but fun=%r is returned: the "
                            "returned point is not the point that produced the returned values"
                            % ([c.fun for c in cands][:2], rf), key="x_values_mismatch"))
            return out
    feas = [p for p in pairs if p[1] == p[1] and p[1] <= tol and p[0] == p[0]]
    if feas:
        fmin = min(p[0] for p in feas)
        if not (rv <= tol + (0.0 if exact_violation(stmt) else maxcv_allow(rv, 1.0))) or rf != rf:
            out.append(Viol("C03", "feasible_first",
                            "a feasible evaluated point with defined objective exists (fun=%r) but the result has "
                            "fun=%r maxcv=%r" % (fmin, rf, rv), key="feasible_first"))
        elif rf > fmin:
            out.append(Viol("C03", "least_feasible",
                            "result fun=%r but a feasible evaluated point has fun=%r" % (rf, fmin),
                            key="least_feasible"))
        else:
            st["c03.feasible_checked"] += 1
        return out
    # no feasible defined point: not dominated, NaN never preferred
    any_defined = [p for p in pairs if p[0] == p[0] and p[1] == p[1]]
    if any_defined and (rf != rf or rv != rv):
        out.append(Viol("C03", "nan_preferred", "result fun=%r maxcv=%r is undefined although %d defined points "
                        "were evaluated" % (rf, rv, len(any_defined)), key="nan_preferred"))
        return out
    for p in any_defined:
        al = maxcv_allow(p[1], p[2]) if math.isfinite(p[1]) else 0.0
        if p[0] < rf and p[1] + al < rv - al:
            out.append(Viol("C03", "dominated", "result (fun=%r, maxcv=%r) is dominated by an evaluated point "
                            "(fun=%r, violation=%r)" % (rf, rv, p[0], p[1]), key="dominated"))
            return out
    # merit minimiser with the final penalty (probe)
    ps = rec.probe
    if ps is not None and ps.final is not None and math.isfinite(rf) and math.isfinite(rv):
        pen = ps.final["penalty"]
        if math.isfinite(pen):
            mres = rf + pen * rv
            for p in any_defined:
                if not math.isfinite(p[1]) or not math.isfinite(p[0]):
                    continue
                al = (1.0 + pen) * maxcv_allow(p[1], p[2]) + 8 * EPS * (abs(mres) + abs(p[0]) + pen * abs(p[1]))
                if p[0] + pen * p[1] < mres - al:
                    out.append(Viol("C03", "merit", "result merit %r with penalty %r but an evaluated point has "
                                    "merit %r" % (mres, pen, p[0] + pen * p[1]), key="merit"))
                    return out
            st["c03.merit_checked"] += 1
    st["c03.infeasible_checked"] += 1
    return out


def c03_finite_filter(rec, st):
    """End-to-end clause for a finite filter_size: the documented retention rule is run on the recorded
    (objective, violation) history and the documented selection on what it retains (final penalty from the
    probe).  Only for all-finite histories without linear constraints, where the reference violation is computed
    by the very same subtractions as the solver's and no rounding can differ."""
    from ..machines.filter import ref_retention, ref_select
    out = []
    stmt, res = rec.stmt, rec.res
    ps = rec.probe
    if stmt.get("linear") or ps is None or ps.final is None:
        st["c03.finite_filter_not_evaluated"] += 1
        return out
    evals, _ = eval_table(rec)
    size = int(opt(stmt, "filter_size"))
    tol = feas_tol(stmt)
    kept = []
    for e in evals:
        if e.fun is None:
            return out
        V, scale, has_nan = V_of(rec, e)
        if has_nan or not (math.isfinite(V) and math.isfinite(e.fun)):
            st["c03.finite_filter_nonfinite_skipped"] += 1
            return out
        kept = ref_retention(kept, (float(e.fun), float(V), e.idx), size)
    pen = ps.final["penalty"]
    if not kept or not math.isfinite(pen):
        return out
    want = ref_select(kept, pen, tol)
    st["c03.finite_filter_checked"] += 1
    if not (want[0] == float(res["fun"]) and want[1] == float(res["maxcv"])):
        out.append(Viol("C03", "finite_filter", "filter_size=%d: result (fun=%r, maxcv=%r); the documented retention and "
                        "selection rules give (fun=%r, maxcv=%r) from evaluation %d"
                        % (size, res["fun"], res["maxcv"], want[0], want[1], want[2]), key="finite_filter"))
    return out


# ---------------------------------------------------------------------------
# C05 budgets respected and counted truthfully
# ---------------------------------------------------------------------------
def c05(rec, st):
    out = []
    stmt = rec.stmt
    evals, strays = eval_table(rec)
    nev = len(evals)
    maxfev = opt(stmt, "maxfev")
    if maxfev is not None:
        st["c05.maxfev_checked"] += 1
        if nev > maxfev:
            out.append(Viol("C05", "a", "%d evaluations with maxfev=%d" % (nev, maxfev), key="over_budget"))
        if stmt.get("obj") is not None:
            ocalls = sum(1 for e in rec.events if e["k"] == "obj" and not e.get("probe"))
            if ocalls > maxfev:
                out.append(Viol("C05", "a", "%d objective calls with maxfev=%d" % (ocalls, maxfev),
                                key="over_budget"))
    # a user function called at a point that is not one of the counted evaluations is an evaluation too
    pts = set(e["x"] for e in rec.events if e["k"] in ("obj", "con") and not e.get("probe"))
    if maxfev is not None and len(pts) > maxfev:
        out.append(Viol("C05", "a", "user functions were called at %d distinct points with maxfev=%d" % (len(pts), maxfev),
                        key="over_budget_points"))
    if rec.res is None:
        return out
    res = rec.res
    if isinstance(res["nfev"], (int, np.integer)) and len(pts) > res["nfev"] and not out:
        out.append(Viol("C05", "b", "user functions were called at %d distinct points but nfev=%r" % (len(pts), res["nfev"]),
                        key="nfev_points"))
    if res["nfev"] != nev:
        out.append(Viol("C05", "b", "nfev=%r but the problem was evaluated at %d points" % (res["nfev"], nev),
                        key="nfev" + ("_noobj" if stmt.get("obj") is None else "")))
    else:
        st["c05.nfev_checked"] += 1
    maxiter = opt(stmt, "maxiter")
    if maxiter is not None and res["nit"] is not None and res["nit"] > maxiter:
        out.append(Viol("C05", "c", "nit=%r > maxiter=%r" % (res["nit"], maxiter), key="nit"))
    if opt(stmt, "store_history"):
        hs = opt(stmt, "history_size")
        fh, mh = res.get("fun_history"), res.get("maxcv_history")
        if fh is None or mh is None:
            out.append(Viol("C05", "d", "store_history is on but the result has no histories", key="no_history"))
            return out
        want = nev if hs is None else min(nev, hs)
        fh = [float(v) for v in np.atleast_1d(fh)]
        mh = [float(v) for v in np.atleast_1d(mh)]
        if len(fh) != want or len(mh) != want:
            out.append(Viol("C05", "d", "history lengths %d/%d, expected min(nfev, history_size)=%d"
                            % (len(fh), len(mh), want), key="history_len"))
            return out
        tail = evals[nev - want:]
        for k, e in enumerate(tail):
            if e.fun is None or not beq(fh[k], float(e.fun)):
                out.append(Viol("C05", "d", "fun_history[%d]=%r but evaluation %d replied %r"
                                % (k, fh[k], e.idx, e.fun), key="fun_history"))
                return out
        if consistent(stmt) and not refmodel.contradictory_limits(stmt):
            for k, e in enumerate(tail):
                V, scale, has_nan = V_of(rec, e)
                if has_nan:
                    st["c05.hist_nan_guard"] += 1
                    continue
                if not (mh[k] == V or abs(mh[k] - V) <= 1e-9 * (1.0 + abs(V) + scale)):
                    out.append(Viol("C05", "d", "maxcv_history[%d]=%r but the true violation of evaluation %d is %r"
                                    % (k, mh[k], e.idx, V), key="maxcv_history"))
                    return out
        st["c05.history_checked"] += 1
    return out


# ---------------------------------------------------------------------------
# C06 user functions called once per evaluation, never behind the scenes
# ---------------------------------------------------------------------------
def c06(rec, st):
    out = args_clause(rec, "C06", st)
    stmt = rec.stmt
    n = stmt["n"]
    has_obj = stmt.get("obj") is not None
    groups, strays = rec.evaluations()
    st["c06.groups"] += len(groups)
    jac_calls = [e for e in rec.events if e["k"] == "jac" and not e.get("probe")]
    if jac_calls:
        out.append(Viol("C06", "a", "the user's Jacobian (documented as disregarded) was called %d times" % len(jac_calls),
                        key="jacobian_called"))
    for j, obj in sorted((getattr(rec.ctx, "con_objs", None) or {}).items()):
        seen = sum(1 for e in rec.events if e["k"] == "con" and e["j"] == j)
        st["c06.stateful_objects_checked"] += 1
        if obj.count != seen:
            out.append(Viol("C06", "c", "constraint function %d is a method of a user object that received %d calls while %d "
                            "evaluations of it were made: they landed on a copy of the object" % (j, obj.count, seen),
                            key="foreign_object"))
    fn_strays = [e for e in strays if e["k"] in ("obj", "con")]
    if fn_strays:
        e = fn_strays[0]
        out.append(Viol("C06", "a", "%d user-function call(s) outside any counted evaluation (first: %s)"
                        % (len(fn_strays), e["k"] + str(e.get("j", ""))), key="hidden_call"))
    last_x = {}
    for gi, g in enumerate(groups):
        calls = g["obj"] + g["con"]
        if has_obj and len(g["obj"]) != 1 and g.get("exc") in (None, "CallbackSuccess"):
            out.append(Viol("C06", "a", "evaluation %d called the objective %d times" % (gi + 1, len(g["obj"])),
                            key="obj_count"))
        seen = {}
        for c in g["con"]:
            seen[c["j"]] = seen.get(c["j"], 0) + 1
        for j, k in seen.items():
            if k > 1:
                out.append(Viol("C06", "a", "evaluation %d called constraint function %d %d times" % (gi + 1, j, k),
                                key="con_twice"))
        if calls:
            x0 = calls[0]["x"]
            for c in calls:
                if len(c["x"]) != 8 * n or c["shape"] != (n,):
                    out.append(Viol("C06", "b", "evaluation %d: %s called with a point of shape %r (n=%d): "
                                    "internal variables" % (gi + 1, c["k"], c["shape"], n), key="internal_point"))
                    break
                if c["x"] != x0:
                    out.append(Viol("C06", "b", "evaluation %d: %s called at a different point than the objective"
                                    % (gi + 1, c["k"] + str(c.get("j", ""))), key="other_point"))
                    break
            # callback after the function calls
            for cb in g["cb"]:
                if any(c["seq"] > cb["seq"] for c in calls):
                    out.append(Viol("C06", "a", "evaluation %d: a user function was called after the callback"
                                    % (gi + 1,), key="order"))
            # c: a constraint call may be omitted only if its previous call had the same point
            for j in range(len(stmt.get("nonlinear") or [])):
                if j not in seen and g.get("exc") is None:
                    if last_x.get(j) != x0:
                        out.append(Viol("C06", "c", "evaluation %d never called constraint function %d"
                                        % (gi + 1, j), key="con_missing"))
            for c in g["con"]:
                last_x[c["j"]] = c["x"]
        if len(out) > 4:
            break
    if rec.res is not None:
        nfev = rec.res["nfev"]
        ocalls = sum(1 for e in rec.events if e["k"] == "obj" and not e.get("probe"))
        if has_obj and ocalls != nfev:
            out.append(Viol("C06", "d", "objective called %d times, nfev=%r" % (ocalls, nfev), key="obj_vs_nfev"))
        nev = len(groups)
        for j in range(len(stmt.get("nonlinear") or [])):
            cc = sum(1 for e in rec.events if e["k"] == "con" and e["j"] == j and not e.get("probe"))
            if cc > max(nev, nfev if isinstance(nfev, int) else 0):
                out.append(Viol("C06", "d", "constraint function %d called %d times for %d evaluations"
                                % (j, cc, nev), key="con_calls"))
    return out


# ---------------------------------------------------------------------------
# C07 status, message and success describe what happened
# ---------------------------------------------------------------------------
_DOC_TABLE = None


def doc_status_table():
    """Parse the exit-status table of minimize.__doc__ (the documentation is the oracle)."""
    global _DOC_TABLE
    if _DOC_TABLE is None:
        from cobyqa import minimize
        doc = minimize.__doc__ or ""
        tab = {}
        for m in re.finditer(r"\*\s+-\s+(-?\d+)\s*\n\s+-\s+(.+?)\n", doc):
            tab[int(m.group(1))] = m.group(2).strip().rstrip(".")
        _DOC_TABLE = tab
    return _DOC_TABLE


def c07(rec, st):
    out = []
    if rec.res is None:
        return out
    res, stmt = rec.res, rec.stmt
    tab = doc_status_table()
    status = res["status"]
    st["c07.status_%s" % status] += 1
    if len(tab) >= 9:
        if status not in tab:
            out.append(Viol("C07", "a", "status %r is not a documented code" % (status,), key="unknown_status"))
            return out
        if str(res["message"]).rstrip(".") != tab[status]:
            out.append(Viol("C07", "a", "status %r with message %r, documented: %r" % (status, res["message"], tab[status]),
                            key="message"))
    else:
        st["c07.doc_table_missing"] += 1
    evals, _ = eval_table(rec)
    tol = feas_tol(stmt)
    lb, ub = clean_bounds(stmt)
    ps = rec.probe
    amb = False
    Vres = None
    Vnan = False
    if evals and res.get("x") is not None and consistent(stmt) and not refmodel.contradictory_limits(stmt):
        cands, _ = find_eval_of_x(evals, res["x"])
        cands = [e for e in cands if e.fun is not None and beq(float(e.fun), float(res["fun"]))] or cands
        if cands:
            # the same point may have been evaluated several times with different replies (sticky faults):
            # the result refers to the evaluation whose values it reports
            tv = [V_of(rec, e) for e in cands]
            defined = [t for t in tv if not t[2]]
            Vnan = not defined
            if defined:
                mc = float(res["maxcv"])
                best = min(defined, key=lambda t: abs(t[0] - mc) if mc == mc else t[0])
                V, scale = best[0], best[1]
                Vres = V
                amb = ambiguous_feasibility(stmt, V, scale, tol)
    if status == 0:
        if ps is not None and ps.final is not None and "resolution" in ps.final:
            if not (ps.final["resolution"] <= ps.final["rhoend"]):
                out.append(Viol("C07", "b0", "status 0 but resolution %r > radius_final %r"
                                % (ps.final["resolution"], ps.final["rhoend"]), key="status0"))
            else:
                st["c07.b0_checked"] += 1
        else:
            st["c07.b0_not_evaluated"] += 1
    elif status == 1:
        target = opt(stmt, "target")
        if target is None:
            target = -math.inf
        if not (float(res["fun"]) <= target):
            out.append(Viol("C07", "b1", "status 1 but fun=%r > target=%r" % (res["fun"], target), key="status1_target"))
        elif Vres is not None and not amb and Vres > tol:
            out.append(Viol("C07", "b1", "status 1 but the returned point violates the constraints by %r > %r"
                            % (Vres, tol), key="status1_feas"))
        elif Vnan:
            out.append(Viol("C07", "b1", "status 1 but a constraint is undefined (NaN) at the returned point",
                            key="status1_nan"))
    elif status == 2:
        if not consistent(stmt) or n_free_of(stmt) != 0:
            out.append(Viol("C07", "b2", "status 2 but %d variables are not fixed" % n_free_of(stmt), key="status2"))
    elif status == 3:
        if not rec.ctx.cb_raised:
            out.append(Viol("C07", "b3", "status 3 but the callback never raised StopIteration", key="status3"))
        else:
            ue = rec.user_events()
            if not ue or ue[-1]["k"] != "cb_raise":
                out.append(Viol("C07", "b3", "status 3 but user functions were called after the stop request",
                                key="status3_late"))
    elif status == 4:
        if stmt.get("obj") is not None:
            out.append(Viol("C07", "b4", "status 4 for a problem with an objective", key="status4_obj"))
        elif Vres is not None and not amb and Vres > tol:
            out.append(Viol("C07", "b4", "status 4 but the returned point violates the constraints by %r" % Vres,
                            key="status4_feas"))
        elif Vnan:
            out.append(Viol("C07", "b4", "status 4 but a constraint is undefined (NaN) at the returned point",
                            key="status4_nan"))
    elif status == 5:
        maxfev = opt(stmt, "maxfev")
        if maxfev is None and ps is not None and ps.final is not None:
            maxfev = ps.final["maxfev"]
        if maxfev is not None and res["nfev"] != maxfev:
            out.append(Viol("C07", "b5", "status 5 but nfev=%r != maxfev=%r" % (res["nfev"], maxfev), key="status5"))
    elif status == 6:
        maxiter = opt(stmt, "maxiter")
        if maxiter is None and ps is not None and ps.final is not None:
            maxiter = ps.final["maxiter"]
        if maxiter is not None and res["nit"] != maxiter:
            out.append(Viol("C07", "b6", "status 6 but nit=%r != maxiter=%r" % (res["nit"], maxiter), key="status6"))
    elif status == -1:
        if consistent(stmt):
            out.append(Viol("C07", "b-1", "status -1 but the bounds are consistent", key="status-1"))
    # c: success
    if res["success"]:
        if status not in (0, 1, 2, 3, 4):
            out.append(Viol("C07", "c", "success with status %r" % status, key="success_status"))
        if not (math.isfinite(float(res["fun"])) and math.isfinite(float(res["maxcv"]))):
            out.append(Viol("C07", "c", "success with fun=%r maxcv=%r" % (res["fun"], res["maxcv"]), key="success_nan"))
        elif status not in (1, 4) and not (float(res["maxcv"]) <= tol):
            out.append(Viol("C07", "c", "success with maxcv=%r > feasibility_tol=%r" % (res["maxcv"], tol),
                            key="success_infeasible"))
        elif Vres is not None and not amb and Vres > tol:
            out.append(Viol("C07", "c", "success but the true violation at the returned point is %r > %r" % (Vres, tol),
                            key="success_true_violation"))
        elif Vnan:
            out.append(Viol("C07", "c", "success although a constraint is undefined (NaN) at the returned point",
                            key="success_nan_violation"))
    return out


# ---------------------------------------------------------------------------
# C08 always returns; no internal exception escapes; NaN-safe
# ---------------------------------------------------------------------------
def c08(rec, st):
    out = []
    if getattr(rec, "hang", None):
        out.append(Viol("C08", "f", "no progress: %s" % rec.hang, key="no_progress"))
        return out
    if getattr(rec, "steps", None):
        st["c08.f_traced_worlds"] += 1
        st["c08.f_line_steps"] += rec.steps["total"]
    if rec.exc is not None:
        out.append(Viol("C08", "a", "minimize raised %s: %s (in %s)" % (rec.exc["type"], rec.exc["msg"], rec.exc["frame"]),
                        key="%s@%s" % (rec.exc["type"], rec.exc["frame"]), data={"tb": rec.exc["tb"]}))
        return out
    res = rec.res
    if res is None:
        return out
    st["c08.returned"] += 1
    n = rec.stmt["n"]

    def bad(msg):
        out.append(Viol("C08", "b", "malformed result: " + msg, key="malformed"))

    if res["res_type"] != "OptimizeResult":
        bad("type %s" % res["res_type"])
    if not isinstance(res["message"], str):
        bad("message is %s" % res["type_message"])
    if not isinstance(res["success"], (bool, np.bool_)):
        bad("success is %s" % res["type_success"])
    if not isinstance(res["status"], (int, np.integer)) or isinstance(res["status"], bool):
        bad("status is %s" % res["type_status"])
    x = res["x"]
    if not isinstance(x, np.ndarray) or x.shape != (n,) or x.dtype.kind != "f":
        bad("x is %r" % (x,))
    for key in ("fun", "maxcv"):
        if not isinstance(res[key], (float, np.floating)):
            bad("%s is %s" % (key, res["type_" + key]))
    for key in ("nfev", "nit"):
        if not isinstance(res[key], (int, np.integer)) or isinstance(res[key], bool) or res[key] < 0:
            bad("%s is %r" % (key, res[key]))
    if opt(rec.stmt, "store_history"):
        for key in ("fun_history", "maxcv_history"):
            h = res.get(key)
            if not isinstance(h, np.ndarray) or h.ndim != 1 or h.dtype.kind != "f":
                bad("%s is %r" % (key, type(h).__name__))
    if out:
        return out
    if res["success"] and not (math.isfinite(float(res["fun"])) and math.isfinite(float(res["maxcv"]))):
        out.append(Viol("C08", "c", "success with fun=%r maxcv=%r" % (res["fun"], res["maxcv"]), key="success_nan"))
    elif res["success"] and consistent(rec.stmt) and not refmodel.contradictory_limits(rec.stmt):
        evals, _ = eval_table(rec)
        if evals and res.get("x") is not None and len(res["x"]) == n:
            cands, _ = find_eval_of_x(evals, res["x"])
            cands = [e for e in cands if e.fun is not None and beq(float(e.fun), float(res["fun"]))]
            if cands and all(V_of(rec, e)[2] for e in cands):
                out.append(Viol("C08", "c", "labelled successful although a constraint function returned NaN at the "
                                "returned point (the true maxcv is undefined, %r is reported)" % (res["maxcv"],),
                                key="success_undefined_violation"))
    ps = rec.probe
    if ps is not None:
        for k, ev in enumerate(ps.evals):
            if "fun" not in ev:
                continue
            vals = [ev["fun"]] + ev["cub"] + ev["ceq"]
            st["c08.d_values"] += len(vals)
            if any((v != v) or abs(v) > BARRIER for v in vals):
                out.append(Viol("C08", "d", "evaluation %d handed a non-finite or beyond-barrier value to the solver: %r"
                                % (k + 1, vals[:4]), key="barrier"))
                break
        for op in ps.model_ops:
            if op.get("tables_finite") is False:
                out.append(Viol("C08", "d", "the models' value tables are not finite after %s" % op["op"],
                                key="tables"))
                break
    return out


# ---------------------------------------------------------------------------
# C09 (history clauses; the cut-point engine supplies the worlds)
# ---------------------------------------------------------------------------
def c09(rec, st):
    out = []
    if rec.res is None:
        if rec.exc is not None and rec.ctx.cb_raised:
            out.append(Viol("C09", "a", "the callback raised StopIteration but minimize raised %s instead of returning "
                            "status 3" % rec.exc["type"], key="exception_instead_of_status3"))
            return out
        if rec.exc is None:
            return out
    stmt, res = rec.stmt, rec.res
    if not consistent(stmt) or n_free_of(stmt) == 0:
        st["c09.skip_degenerate"] += 1
        return out
    if refmodel.contradictory_limits(stmt):
        st["c09.skip_contradictory"] += 1
        return out
    evals, strays = eval_table(rec)
    if not evals:
        return out
    tol = feas_tol(stmt)
    target = opt(stmt, "target")
    target = -math.inf if target is None else float(target)
    has_obj = stmt.get("obj") is not None
    sat = []      # per evaluation: set of statuses whose request is satisfied there, or None if ambiguous
    for e in evals:
        V, scale, has_nan = V_of(rec, e)
        s = set()
        amb = False
        if has_nan:
            amb = True
        else:
            if ambiguous_feasibility(stmt, V, scale, tol):
                amb = True
            feas = V <= tol
            if has_obj:
                f = e.fun
                if f is None:
                    amb = True
                elif f != f or (math.isinf(f) and target == -math.inf) or abs(f) >= BARRIER:
                    # the code compares the barrier-clipped value; the statement does not say which
                    if f != f or f <= target or refmodel.clip_barrier(f) <= target:
                        amb = True
                elif f <= target and feas:
                    s.add(1)
            else:
                if feas:
                    s.add(4)
                    # documented: without objective the objective is the zero function
                    if 0.0 <= target:
                        s.add(1)
        if e.raised:
            s.add(3)
        sat.append(None if amb and not e.raised else (s if not amb else (s | {"amb"})))
    if res is None:
        # minimize raised: if the last evaluation satisfied a stopping request, the request was not honoured
        s_last = sat[-1]
        if s_last is not None and "amb" not in s_last and s_last and all(not x for x in sat[:-1] if x is not None) \
                and all(x is not None and "amb" not in x for x in sat[:-1]):
            out.append(Viol("C09", "a", "a stopping request (%s) was satisfied at evaluation %d but minimize raised %s "
                            "instead of returning" % (sorted(s_last), len(evals), rec.exc["type"]),
                            key="exception_instead_of_status:%s" % sorted(s_last)[0]))
        return out
    status = res["status"]
    # a: forward
    first = None
    for k, s in enumerate(sat):
        if s is None:
            first = None
            break
        if "amb" in s:
            first = None
            break
        if s:
            first = k
            break
    else:
        first = None
    if first is not None:
        st["c09.forward_checked"] += 1
        s = sat[first]
        if len(evals) > first + 1:
            out.append(Viol("C09", "a", "a stopping request (%s) was satisfied at evaluation %d but %d more "
                            "evaluation(s) followed" % (sorted(s), first + 1, len(evals) - first - 1),
                            key="late_stop:%s" % sorted(s)[0]))
        else:
            if status not in s:
                out.append(Viol("C09", "a", "request %s satisfied at the last evaluation %d but status=%r"
                                % (sorted(s), first + 1, status), key="wrong_status:%s" % sorted(s)[0]))
            if res["nfev"] != first + 1:
                out.append(Viol("C09", "a", "run stopped by evaluation %d but nfev=%r" % (first + 1, res["nfev"]),
                                key="nfev"))
            ue = rec.user_events()
            lastg = evals[first].group
            last_seq = max([x["seq"] for x in lastg["obj"] + lastg["con"] + lastg["cb"]] or [0])
            late = [x for x in ue if x["seq"] > last_seq and x["k"] != "cb_raise"]
            if late:
                out.append(Viol("C09", "a", "%d user call(s) after the triggering evaluation" % len(late),
                                key="late_call"))
    else:
        st["c09.forward_ambiguous_or_none"] += 1
    # b: converse
    if status in (1, 3, 4):
        s = sat[-1]
        if s is None or "amb" in s:
            st["c09.converse_ambiguous"] += 1
        elif status not in s:
            out.append(Viol("C09", "b", "status %d but the corresponding request was not satisfied at the last "
                            "evaluation" % status, key="converse:%d" % status))
        else:
            st["c09.converse_checked"] += 1
    # c: returned point satisfies the request
    if status == 1 and not (float(res["fun"]) <= target and float(res["maxcv"]) <= tol):
        out.append(Viol("C09", "c", "status 1 but result fun=%r maxcv=%r (target %r, tol %r)"
                        % (res["fun"], res["maxcv"], target, tol), key="result_target"))
    if status == 4 and not (float(res["maxcv"]) <= tol):
        out.append(Viol("C09", "c", "status 4 but result maxcv=%r > %r" % (res["maxcv"], tol), key="result_feasible"))
    if status in (1, 4) and not out and res.get("x") is not None and len(res["x"]) == stmt["n"]:
        # ... judged by the true violation of the returned point, not only by the reported one
        cands, _ = find_eval_of_x(evals, res["x"])
        cands = [e for e in cands if e.fun is not None and beq(float(e.fun), float(res["fun"]))]
        if cands:
            tv = [V_of(rec, e) for e in cands]
            if all(t[2] for t in tv):
                out.append(Viol("C09", "c", "status %d but a constraint is undefined (NaN) at the returned point" % status,
                                key="result_undefined_violation"))
            elif all((not t[2]) and t[0] > tol and not ambiguous_feasibility(stmt, t[0], t[1], tol) for t in tv):
                out.append(Viol("C09", "c", "status %d but the returned point violates the constraints by %r > %r"
                                % (status, tv[0][0], tol), key="result_true_violation"))
    if status == 3:
        cbs = [e for e in rec.events if e["k"] == "cb" and not e.get("probe")]
        if cbs and cbs[-1]["x"] and not rec.stmt["callback"].get("mutate"):
            if np.array(res["x"], dtype=float).tobytes() != cbs[-1]["x"]:
                out.append(Viol("C09", "c", "status 3 but the result is not the point the last callback call received",
                                key="result_callback"))
    return out


# ---------------------------------------------------------------------------
# C20 (history clauses; stop@k branching lives in the cut-point engine)
# ---------------------------------------------------------------------------
KW_STYLES = ("kw", "objkw", "partialkw")


def c20(rec, st):
    out = []
    stmt = rec.stmt
    cbs = stmt.get("callback")
    if cbs is None:
        return out
    if rec.exc is not None and rec.exc["type"] == "TypeError" and rec.exc["frame"].startswith("problem.py"):
        # the call of the user's callback itself failed: it was not invoked in the convention its signature asks for
        out.append(Viol("C20", "b", "invoking the %s-style callback raised TypeError: %s" % (cbs["style"], rec.exc["msg"]),
                        key="convention_exception"))
        return out
    groups, strays = rec.evaluations()
    n = stmt["n"]
    stray_cb = [e for e in strays if e["k"] == "cb"]
    if stray_cb:
        out.append(Viol("C20", "a", "%d callback call(s) outside any evaluation" % len(stray_cb), key="stray_cb"))
    lb, ub = clean_bounds(stmt)
    ok_bounds = consistent(stmt)
    evals, _ = eval_table(rec)
    for gi, g in enumerate(groups):
        complete = g.get("exc") in (None, "CallbackSuccess")
        if complete and len(g["cb"]) != 1:
            out.append(Viol("C20", "a", "evaluation %d invoked the callback %d times" % (gi + 1, len(g["cb"])),
                            key="cb_count"))
            break
        for cb in g["cb"]:
            st["c20.cb_calls"] += 1
            calls = g["obj"] + g["con"]
            if any(c["seq"] > cb["seq"] for c in calls):
                out.append(Viol("C20", "a", "evaluation %d: callback invoked before the functions were evaluated"
                                % (gi + 1,), key="cb_order"))
            want_kw = cbs["style"] in KW_STYLES
            if want_kw != (cb["how"] == "kw"):
                out.append(Viol("C20", "b", "callback of style %s invoked %s" % (cbs["style"], cb["how"]),
                                key="convention"))
                break
            if want_kw:
                if cb["typ"] != "OptimizeResult" or cb["keys"] is None or "x" not in cb["keys"] or "fun" not in cb["keys"]:
                    out.append(Viol("C20", "b", "intermediate_result is %s with keys %r" % (cb["typ"], cb["keys"]),
                                    key="intermediate_result"))
                    break
            if not cb["is_arr"] or cb["shape"] != (n,):
                out.append(Viol("C20", "c", "callback received %s of shape %r, expected an array of shape (%d,)"
                                % (cb["typ"], cb["shape"], n), key="cb_shape"))
                break
            x = unpack(cb["x"])
            if ok_bounds:
                for i in range(n):
                    if not (lb[i] <= x[i] <= ub[i]):
                        out.append(Viol("C20", "c", "callback point x[%d]=%r outside [%r, %r]" % (i, x[i], lb[i], ub[i]),
                                        key="cb_bounds"))
                        break
                    if lb[i] == ub[i] and x[i] != lb[i]:
                        out.append(Viol("C20", "c", "callback point: fixed variable %d is %r" % (i, x[i]), key="cb_fixed"))
                        break
            # e: the point is an evaluated point (so far) and fun is its raw objective reply
            prior = evals[: gi + 1]
            cands, _ = find_eval_of_x(prior, x)
            if not cands:
                out.append(Viol("C20", "e", "callback %d received a point that was not evaluated so far" % cb["i"],
                                key="cb_point_unknown"))
                break
            if want_kw and cb["fun"] is not None:
                if stmt.get("obj") is not None:
                    if not any(c.fun is not None and beq(float(c.fun), cb["fun"]) for c in cands):
                        out.append(Viol("C20", "e", "callback %d received fun=%r but the objective replied %r there"
                                        % (cb["i"], cb["fun"], [c.fun for c in cands][:3]), key="cb_fun"))
                        break
                elif cb["fun"] != 0.0:
                    out.append(Viol("C20", "e", "callback fun=%r for a problem without objective" % cb["fun"], key="cb_fun"))
                    break
        if len(out) > 3:
            break
    return out


# ---------------------------------------------------------------------------
# C11.b arguments untouched
# ---------------------------------------------------------------------------
def c11b(rec, st):
    out = []
    if rec.snap_before is None or rec.snap_after is None:
        return out
    st["c11.b_checked"] += 1
    for key in rec.snap_before:
        if rec.snap_before[key] != rec.snap_after[key]:
            out.append(Viol("C11", "b", "minimize modified its argument %r" % key, key="mutated:" + key))
    return out


# ---------------------------------------------------------------------------
# C12 / C18 in-run clauses from the probe
# ---------------------------------------------------------------------------
def c12_inrun(rec, st, kappa_max=1e6):
    out = []
    ps = rec.probe
    if ps is None:
        return out
    stmt = rec.stmt
    kappa = 1.0
    S = 1.0
    twin_broken = False
    evals, _ = eval_table(rec)
    info = ps.pbinfo
    for op in ps.model_ops:
        if "error" in op or "exc" in op or "e_fun" not in op:
            continue
        st["c12.ops_" + op["op"]] += 1
        if op.get("ill"):
            st["c12.ops_ill"] += 1
        kappa = max(kappa, op["cond"])
        mags = [op["mag_fun"]] + op["mag_cub"] + op["mag_ceq"]
        S = max([S] + mags + [abs(op.get("pred_fun", 0.0))])
        errs = [("objective", op["e_fun"])] + [("cub%d" % i, v) for i, v in enumerate(op["e_cub"])] + \
               [("ceq%d" % i, v) for i, v in enumerate(op["e_ceq"])]
        if kappa <= kappa_max and math.isfinite(S) and op.get("set_scale", 0.0) > 0.0:
            # the check evaluates the models at base + offset: the offsets are only known to
            # eps*|x|, which matters when the set is tiny compared with the coordinates
            resolve = 1.0 + op["abs_max"] / op["set_scale"]
            bound = 1e4 * EPS * kappa * op["npt"] * S * resolve
            st["c12.a_checked"] += 1
            for name, v in errs:
                if not (v <= bound):
                    out.append(Viol("C12", "a", "after %s the %s model misses a recorded value by %.3g "
                                    "(bound %.3g, cond %.3g)" % (op["op"], name, v, bound, kappa),
                                    key="interp:" + ("fun" if name == "objective" else "con")))
                    return out
        else:
            st["c12.a_skipped_illposed"] += 1
        # b: twin consistency
        tw = stmt.get("twin")
        if tw and not op.get("same_data"):
            twin_broken = True
        if tw and twin_broken:
            st["c12.b_skipped_data_differ"] += 1
        elif tw:
            E = op["e_fun"]
            scale = max(1.0, op["mag_fun"])
            for name, v in errs[1:]:
                if not (v <= 10.0 * E + 1e-7 * scale):
                    out.append(Viol("C12", "b", "after %s the twin %s model (same data as the objective) has "
                                    "interpolation error %.3g vs %.3g for the objective model"
                                    % (op["op"], name, v, E), key="twin"))
                    return out
            st["c12.b_checked"] += 1
        # d: recorded value is the barrier-clipped raw reply at that very point
        if op["op"] == "update" and "x_new" in op and info is not None and evals:
            xi = np.frombuffer(op["x_new"], dtype=float)
            xf = np.empty(info["fixed_idx"].size)
            xf[info["fixed_idx"]] = info["fixed_val"]
            xf[~info["fixed_idx"]] = xi * info["factor"] + info["shift"]
            # the evaluation this update records is the latest one before the op
            cand = None
            for e in reversed(evals):
                g = e.group
                seqs = [c["seq"] for c in g["obj"] + g["con"]]
                if seqs and max(seqs) < op["seq"]:
                    cand = e
                    break
            if cand is not None and cand.xl is not None:
                st["c12.d_checked"] += 1
                # same rounding scale as C01.d: the largest magnitude each coordinate has had in this run
                seen = getattr(ps, "scale_seen", None)
                seen_full = np.zeros(info["fixed_idx"].size)
                if seen is not None and seen.shape == info["factor"].shape:
                    seen_full[~info["fixed_idx"]] = seen * np.abs(info["factor"]) + np.abs(info["shift"])
                tolx = [1e-12 * max(1.0, abs(a), sc) for a, sc in zip(xf, seen_full.tolist())]
                if any(abs(a - b) > t for a, b, t in zip(xf.tolist(), cand.xl, tolx)):
                    out.append(Viol("C12", "d", "the value recorded for the new interpolation point was measured at a "
                                    "different (projected) point: distance %.3g"
                                    % max(abs(a - b) for a, b in zip(xf.tolist(), cand.xl)), key="recorded_elsewhere"))
                    return out
                if cand.fun is not None and stmt.get("obj") is not None:
                    if refmodel.clip_barrier(float(cand.fun)) != op["fun_val"]:
                        out.append(Viol("C12", "d", "recorded objective value %r is not the barrier-clipped reply %r"
                                        % (op["fun_val"], cand.fun), key="recorded_value"))
                        return out
                sl = refmodel.internal_slacks(stmt, cand.con) if stmt.get("nonlinear") else None
                if sl is not None and not refmodel.contradictory_limits(stmt):
                    st["c12.d_constraints_checked"] += 1
                    got = (op["cub_val"], op["ceq_val"])
                    for nm, want, have in (("inequality", sl[0], got[0]), ("equality", sl[1], got[1])):
                        if len(want) != len(have) or any(not beq(float(a), float(b)) for a, b in zip(want, have)):
                            out.append(Viol("C12", "d", "recorded %s constraint values %r are not the (barrier-clipped) "
                                            "values %r the user functions returned at that point" % (nm, have[:4], want[:4]),
                                            key="recorded_constraint_value"))
                            return out
    return out


def c18_inrun(rec, st):
    out = []
    ps = rec.probe
    if ps is None:
        return out
    prev_res = None
    nred = 0
    for it in ps.iters:
        if "error" in it or "radius" not in it:
            continue
        st["c18.iters"] += 1
        r, rho, re_ = it["radius"], it["resolution"], it["rhoend"]
        if not (re_ <= rho <= r):
            out.append(Viol("C18", "a", "radius_final=%r <= resolution=%r <= radius=%r fails" % (re_, rho, r),
                            key="order:" + ("below_final" if rho < re_ else "radius_below_resolution")))
            return out
        if prev_res is not None:
            if rho > prev_res:
                out.append(Viol("C18", "b", "resolution increased from %r to %r" % (prev_res, rho), key="increase"))
                return out
            if rho < prev_res:
                nred += 1
        prev_res = rho
        pen = it["penalty"]
        if not (math.isfinite(pen) and pen >= 0.0):
            out.append(Viol("C18", "c", "penalty is %r" % pen, key="penalty"))
            return out
        merits = it.get("merits")
        if merits:
            mb = merits[it["best"]]
            npt = it["npt"]
            tol = 10.0 * EPS * max(it["n"], npt) * max(1.0, abs(mb))
            mmin = min(merits)
            st["c18.d_checked"] += 1
            if not (mb <= mmin + 10 * npt * tol + 1e-9 * (1.0 + pen) * max(1.0, abs(mb))):
                out.append(Viol("C18", "d", "the centre has merit %r but interpolation point %d has merit %r"
                                % (mb, merits.index(mmin), mmin), key="centre"))
                return out
            # ties go to the smaller violation.  Evaluated for exact ties at zero penalty only, where the merit
            # value is the recorded objective value itself and no rounding of ours can create or hide a tie.
            viols = it.get("viols")
            if pen == 0.0 and viols:
                vb = viols[it["best"]]
                for k in range(npt):
                    if k != it["best"] and merits[k] == mb:
                        st["c18.d_ties_checked"] += 1
                        vsc = it.get("vscales") or [0.0] * npt
                        # linear residuals computed in two ways (scipy's and the probe's) round at eps * |A||x|
                        margin = 1e-9 * (1.0 + vsc[k] + vsc[it["best"]])
                        if viols[k] < vb * (1.0 - 1e-9) - 1e-12 - margin:
                            out.append(Viol("C18", "d", "points %d and %d tie on the merit value %r but the centre (%d) "
                                            "has violation %r > %r" % (it["best"], k, mb, it["best"], vb, viols[k]),
                                            key="tie_not_to_smaller_violation"))
                            return out
    for rm in ps.removals:
        if rm["with_new"]:
            st["c18.e_checked"] += 1
            if rm["k"] == rm["best"]:
                out.append(Viol("C18", "e", "the centre (index %d) was chosen for replacement" % rm["k"], key="remove_centre"))
                return out
    for rs in ps.resolutions:
        st["c18.resolutions"] += 1
        if rs["after"] > rs["before"]:
            out.append(Viol("C18", "b", "enhance_resolution increased the resolution %r -> %r" % (rs["before"], rs["after"]),
                            key="increase"))
            return out
        if rs["after"] < rs["rhoend"]:
            out.append(Viol("C18", "a", "resolution %r reduced below radius_final %r" % (rs["after"], rs["rhoend"]),
                            key="order:below_final"))
            return out
    if rec.res is not None and rec.res["status"] == 0 and ps.final is not None and "resolution" in ps.final:
        st["c18.f_checked"] += 1
        if not ulp_close(ps.final["resolution"], ps.final["rhoend"], 4):
            out.append(Viol("C18", "f", "status 0 with final resolution %r != radius_final %r"
                            % (ps.final["resolution"], ps.final["rhoend"]), key="status0_resolution"))
    # g: bounded number of reductions
    if ps.resolutions and getattr(ps, "rhobeg", None) is not None and ps.final is not None:
        re_ = ps.final["rhoend"]
        if re_ > 0:
            c = getattr(ps, "constants", None) or {}
            try:
                f = float(c["decrease_resolution_factor"])
                L = float(c["large_resolution_threshold"])
                M = float(c["moderate_resolution_threshold"])
                r0 = ps.rhobeg / re_
                b1 = math.ceil(math.log(max(r0 / L, 1.0)) / math.log(1.0 / f)) if r0 > L else 0
                b2 = math.ceil(math.log2(max(math.log(L) / math.log(M), 1.0))) if L > M else 0
                bound = b1 + b2 + 2
                st["c18.g_checked"] += 1
                if len(ps.resolutions) > bound:
                    out.append(Viol("C18", "g", "%d resolution reductions, bound %d" % (len(ps.resolutions), bound),
                                    key="too_many_reductions"))
            except (KeyError, ValueError, ZeroDivisionError):
                st["c18.g_not_evaluated"] += 1
    return out


ALL = {"C01": c01, "C02": c02, "C03": c03, "C05": c05, "C06": c06, "C07": c07, "C08": c08, "C09": c09,
       "C20": c20, "C11b": c11b, "C12": c12_inrun, "C18": c18_inrun}
