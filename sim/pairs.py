"""C10 - differential simulation: two statements of one problem, one fault plan
keyed by user-space point and evaluation index.

* syntactic restatements (bounds form, dict vs NonlinearConstraint, one two-sided
  constraint vs two one-sided ones, regrouping rows without reordering):
  bitwise trace equality;
* semantic restatements (fixed variables eliminated by hand, scale=True as the
  explicit unit-box problem): (1) faithfulness of the internal data, probed;
  (2) no leak: the restated problem built from exactly the solver's internal
  arrays is solved with a bitwise identical trace and result.
"""
import copy
import math
from collections import Counter

import numpy as np

from .rng import Rng
from . import scenario
from .scenario import profile, n_free_of, fixed_mask, bounds_consistent
from .world import run_client
from .engines import CaseResult, _nevals
from .oracles.common import Viol, eval_table, unpack
from . import refmodel

PROF_SYN = profile(p_bounds=0.8, p_linear=0.6, p_nonlinear=0.6, p_dict=0.5, p_inconsistent=0.0, p_all_fixed=0.0,
                   p_nan_bound=0.0, p_callback=0.3, p_fixed=0.2)
PROF_SEM = profile(p_bounds=1.0, p_linear=0.6, p_nonlinear=0.5, p_scale=0.55, p_fixed=0.75, p_inconsistent=0.0,
                   p_all_fixed=0.0, p_nan_bound=0.0, p_callback=0.2, p_npt=0.3)


# ---------------------------------------------------------------------------
# traces
# ---------------------------------------------------------------------------
def trace(rec):
    """(list of (point bytes, raw objective reply, constraint reply tuple)), result tuple)."""
    evs, strays = eval_table(rec)
    t = []
    for e in evs:
        cons = tuple(v for j in sorted(e.con) for v in e.con[j])
        t.append((e.x, None if e.fun is None else np.float64(e.fun).tobytes(), cons))
    r = None
    if rec.res is not None:
        res = rec.res
        r = (res["status"], bool(res["success"]), res["nfev"], res["nit"], np.float64(res["fun"]).tobytes(),
             np.float64(res["maxcv"]).tobytes(), str(res["message"]))
    return t, r


def _cons_multiset(c):
    return sorted(np.float64(v).tobytes() for v in c)


def compare(ta, ra, tb, rb, xa_res, xb_res, what, prop="C10", clause="syntactic", dup_cons=False):
    out = []
    na, nb = len(ta), len(tb)
    for k in range(min(na, nb)):
        a, b = ta[k], tb[k]
        if a[0] != b[0]:
            out.append(Viol(prop, clause, "%s: evaluation %d is made at a different point (%r vs %r)"
                            % (what, k + 1, unpack(a[0]) if a[0] else None, unpack(b[0]) if b[0] else None),
                            key="point:" + what))
            return out
        if a[1] != b[1]:
            out.append(Viol(prop, clause, "%s: evaluation %d got a different objective reply" % (what, k + 1),
                            key="reply:" + what))
            return out
    if na != nb:
        out.append(Viol(prop, clause, "%s: %d evaluations vs %d" % (what, na, nb), key="length:" + what))
        return out
    if (ra is None) != (rb is None):
        out.append(Viol(prop, clause, "%s: one statement returned, the other raised" % what, key="raise:" + what))
        return out
    if ra is not None:
        names = ("status", "success", "nfev", "nit", "fun", "maxcv", "message")
        for i, nm in enumerate(names):
            if ra[i] != rb[i]:
                va = ra[i] if not isinstance(ra[i], bytes) else float(np.frombuffer(ra[i])[0])
                vb = rb[i] if not isinstance(rb[i], bytes) else float(np.frombuffer(rb[i])[0])
                out.append(Viol(prop, clause, "%s: result field %s differs (%r vs %r)" % (what, nm, va, vb),
                                key="result_%s:%s" % (nm, what)))
                return out
        if xa_res is not None and xb_res is not None and np.array(xa_res, dtype=float).tobytes() != np.array(xb_res, dtype=float).tobytes():
            out.append(Viol(prop, clause, "%s: returned x differs (%r vs %r)" % (what, list(xa_res), list(xb_res)),
                            key="result_x:" + what))
    return out


# ---------------------------------------------------------------------------
# syntactic restatements
# ---------------------------------------------------------------------------
def _is_eq_row(a, b):
    if a != a or b != b:
        return False
    tol = scenario.arrays_tol([a], [b])
    return abs(b - a) <= tol


def _lims(spec, m):
    lb, ub = spec["lb"], spec["ub"]
    lb = [lb] * m if not isinstance(lb, list) else list(lb)
    ub = [ub] * m if not isinstance(ub, list) else list(ub)
    return lb, ub


def restate(rng, stmt, faults):
    """Return (stmt2, faults2, what) for one applicable syntactic restatement, or None."""
    opts = []
    if stmt.get("bounds") is not None:
        opts.append("bounds_form")
    nl = stmt.get("nonlinear") or []
    for j, ns in enumerate(nl):
        if ns.get("form") == "dict":
            opts.append(("dict_to_nlc", j))
        else:
            m = len(ns["comps"])
            lb, ub = _lims(ns, m)
            if all(a == 0.0 for a in lb) and all(b == math.inf for b in ub):
                opts.append(("nlc_to_dict", j, "ineq"))
            if all(a == 0.0 for a in lb) and all(b == 0.0 for b in ub):
                opts.append(("nlc_to_dict", j, "eq"))
            two = [(a > -math.inf and b < math.inf) for a, b in zip(lb, ub)]
            if any(two) and not any(_is_eq_row(a, b) for a, b in zip(lb, ub)) and not any(a > b for a, b in zip(lb, ub)):
                opts.append(("split_nl", j))
    lin = stmt.get("linear") or []
    for j, ls in enumerate(lin):
        m = len(ls["A"])
        lb, ub = _lims(ls, m)
        if any(v != v for v in lb + ub):
            continue
        eq = [_is_eq_row(a, b) for a, b in zip(lb, ub)]
        two = [(a > -math.inf and b < math.inf) and not e for a, b, e in zip(lb, ub, eq)]
        if any(two) and not any(eq):
            opts.append(("split_lin", j))
        dirs = set()
        for a, b, e in zip(lb, ub, eq):
            if e:
                continue
            if a > -math.inf and b < math.inf:
                dirs.add("two")
            elif a > -math.inf:
                dirs.add("lb")
            elif b < math.inf:
                dirs.add("ub")
        if m > 1 and "two" not in dirs and len(dirs) <= 1:
            opts.append(("regroup_lin", j))
    opts.append("x0_form")
    if len(lin) + len(nl) >= 1:
        opts.append("constraints_container")
    if stmt.get("options") in (None, {}):
        opts.append("options_none_vs_empty")
    what = rng.pick(opts)
    s = copy.deepcopy(stmt)
    f2 = copy.deepcopy(list(faults))
    if what == "x0_form":
        s["x0_form"] = rng.pick([f for f in ("list", "tuple", "ndarray") if f != stmt.get("x0_form", "list")])
        return s, f2, "x0_form"
    if what == "constraints_container":
        cur = stmt.get("constraints_form", "list")
        forms = ["list", "tuple"] + (["single"] if len(lin) + len(nl) == 1 else [])
        s["constraints_form"] = rng.pick([f for f in forms if f != cur])
        return s, f2, "constraints_container"
    if what == "options_none_vs_empty":
        s["options"] = {} if stmt.get("options") is None else None
        return s, f2, "options_none_vs_empty"
    if what == "bounds_form":
        forms = [f for f in ("Bounds", "array", "list") if f != s["bounds"].get("form", "Bounds")]
        s["bounds"]["form"] = rng.pick(forms)
        return s, f2, "bounds_form"
    kind = what[0]
    if kind == "dict_to_nlc":
        j = what[1]
        ns = s["nonlinear"][j]
        m = len(ns["comps"])
        args = ns.get("args")
        ns["form"] = "nlc"
        ns["lb"] = [0.0] * m
        ns["ub"] = [math.inf] * m if ns["type"] == "ineq" else [0.0] * m
        if args is not None:
            for cs in ns["comps"]:
                cs["post_add"] = args[0]
        ns.pop("args", None)
        ns.pop("type", None)
        return s, f2, "dict_vs_nlc"
    if kind == "nlc_to_dict":
        j, typ = what[1], what[2]
        ns = s["nonlinear"][j]
        ns["form"] = "dict"
        ns["type"] = typ
        ns["args"] = None
        ns.pop("lb", None)
        ns.pop("ub", None)
        return s, f2, "dict_vs_nlc"
    if kind == "split_nl":
        j = what[1]
        ns = s["nonlinear"][j]
        m = len(ns["comps"])
        lb, ub = _lims(ns, m)
        lo = copy.deepcopy(ns)
        hi = copy.deepcopy(ns)
        lo["lb"], lo["ub"] = lb, [math.inf] * m          # lower part first: slacks are stored [lb - c; c - ub]
        hi["lb"], hi["ub"] = [-math.inf] * m, ub
        _renumber_positions(s)
        base = ns.get("pos", len(lin) + j)
        lo["pos"], hi["pos"] = base, base + 0.5
        s["nonlinear"][j:j + 1] = [lo, hi]
        nf = []
        for f in f2:
            t = f.get("target")
            if isinstance(t, list) and t[0] == "con":
                if t[1] == j:
                    g = copy.deepcopy(f)
                    g["target"] = ["con", j + 1, t[2]]
                    nf.append(f)
                    nf.append(g)
                    continue
                if t[1] > j:
                    f["target"] = ["con", t[1] + 1, t[2]]
            nf.append(f)
        return s, nf, "split_nonlinear"
    if kind == "split_lin":
        j = what[1]
        ls = s["linear"][j]
        m = len(ls["A"])
        lb, ub = _lims(ls, m)
        up = copy.deepcopy(ls)
        lo = copy.deepcopy(ls)
        up["lb"], up["ub"] = [-math.inf] * m, ub           # upper part first: rows are stored [A; -A]
        lo["lb"], lo["ub"] = lb, [math.inf] * m
        _renumber_positions(s)
        base = ls.get("pos", j)
        up["pos"], lo["pos"] = base, base + 0.5
        up.pop("share", None)
        lo.pop("share", None)
        s["linear"][j:j + 1] = [up, lo]
        return s, f2, "split_linear"
    if kind == "regroup_lin":
        j = what[1]
        ls = s["linear"][j]
        m = len(ls["A"])
        lb, ub = _lims(ls, m)
        cut = rng.randint(1, m - 1)
        _renumber_positions(s)
        base = ls.get("pos", j)
        a = {"A": ls["A"][:cut], "lb": lb[:cut], "ub": ub[:cut], "pos": base}
        b = {"A": ls["A"][cut:], "lb": lb[cut:], "ub": ub[cut:], "pos": base + 0.5}
        s["linear"][j:j + 1] = [a, b]
        return s, f2, "regroup_linear"
    return None


def _renumber_positions(s):
    """Make the positions of all constraint objects explicit (linear first unless 'pos' says otherwise)."""
    lin = s.get("linear") or []
    nl = s.get("nonlinear") or []
    for k, o in enumerate(lin):
        o.setdefault("pos", k)
    for k, o in enumerate(nl):
        o.setdefault("pos", len(lin) + k)
    if s.get("constraints_form") == "single":
        s["constraints_form"] = "list"


def syntactic_case(seed, idx, tier):
    cr = CaseResult()
    rs = Rng(seed, "scen", "C10s", idx)
    stmt = scenario.gen_statement(rs, PROF_SYN)
    base0 = run_client(stmt, [], normalize_layout=True)
    cr.account(base0)
    if base0.harness_error:
        return cr
    rf = Rng(seed, "fault", "C10s", idx)
    plan = scenario.gen_fault_plan(rf, stmt, _nevals(base0), 0, allow_linalg=False)
    plan = [f for f in plan if f["kind"] != "cache_off"]
    out = restate(rf, stmt, plan)
    if out is None:
        cr.stats["c10.no_restatement_applicable"] += 1
        return cr
    s2, plan2, what = out
    ra = run_client(stmt, plan, normalize_layout=True) if plan else base0
    if plan:
        cr.account(ra, nontrivial_needs_fault=True)
    rb = run_client(s2, plan2, normalize_layout=True)
    cr.account(rb, nontrivial_needs_fault=bool(plan))
    if ra.harness_error or rb.harness_error:
        return cr
    cr.stats["c10.pairs_" + what] += 1
    vs = pair_verdict(ra, rb, what)
    cr.add_viols(vs, {"engine": "pair", "stmt": stmt, "faults": plan, "stmt2": s2, "faults2": plan2, "what": what})
    cr.sample = {"what": what, "stmt": stmt, "stmt2": s2, "faults": plan}
    return cr


def pair_verdict(ra, rb, what):
    if (ra.exc is None) != (rb.exc is None):
        return [Viol("C10", "syntactic", "%s: one statement raised %s, the other returned"
                     % (what, (ra.exc or rb.exc)["type"]), key="raise:" + what)]
    if ra.exc is not None:
        return []
    ta, r1 = trace(ra)
    tb, r2 = trace(rb)
    return compare(ta, r1, tb, r2, ra.res["x"], rb.res["x"], what)


# ---------------------------------------------------------------------------
# semantic restatements: fixed variables, scaling
# ---------------------------------------------------------------------------
def build_restated(stmt, info):
    """The explicitly reduced / rescaled problem, built from exactly the solver's internal arrays."""
    s = copy.deepcopy(stmt)
    fixed = info["fixed_idx"]
    nfree = int((~fixed).sum())
    lb = [-math.inf if v != v else v for v in stmt["bounds"]["lb"]]
    ub = [math.inf if v != v else v for v in stmt["bounds"]["ub"]]
    s["n"] = nfree
    s["embed"] = {"fixed_idx": [bool(v) for v in fixed], "fixed_val": info["fixed_val"].tolist(),
                  "factor": info["factor"].tolist(), "shift": info["shift"].tolist(),
                  "clip_lb": lb, "clip_ub": ub}
    s["x0"] = info["x0"].tolist()
    s["x0_form"] = "ndarray"
    s["bounds"] = {"form": "Bounds", "lb": info["xl"].tolist(), "ub": info["xu"].tolist()}
    lin = []
    if info["a_ub"].shape[0]:
        lin.append({"A": info["a_ub"].tolist(), "lb": [-math.inf] * info["a_ub"].shape[0], "ub": info["b_ub"].tolist()})
    if info["a_eq"].shape[0]:
        lin.append({"A": info["a_eq"].tolist(), "lb": info["b_eq"].tolist(), "ub": info["b_eq"].tolist()})
    s["linear"] = lin
    for ns in s.get("nonlinear") or []:
        ns.pop("pos", None)
    # linear rows come first internally; the order among nonlinear objects is kept
    nl = sorted(enumerate(stmt.get("nonlinear") or []), key=lambda t: t[1].get("pos", 10 ** 6 + t[0]))
    s["nonlinear"] = [copy.deepcopy(ns) for _, ns in nl]
    for ns in s["nonlinear"]:
        ns.pop("pos", None)
    s["constraints_form"] = "list"
    o = dict(s.get("options") or {})
    o.pop("scale", None)
    s["options"] = o
    return s, [j for j, _ in nl]


def faithfulness(stmt, info, rec, rng, st):
    """The internal (reduced / scaled) linear data reproduce the user's residuals; every evaluated user-space
    point is the image of the internal point."""
    out = []
    fixed, fv = info["fixed_idx"], info["fixed_val"]
    n = stmt["n"]
    lb, ub = np.array([-math.inf if v != v else v for v in stmt["bounds"]["lb"]]), \
        np.array([math.inf if v != v else v for v in stmt["bounds"]["ub"]])
    # user rows in the order the solver stores them
    rows_ub, rhs_ub, rows_eq, rhs_eq = [], [], [], []
    lin_sorted = sorted(enumerate(stmt.get("linear") or []), key=lambda t: t[1].get("pos", t[0]))
    allc = [(ls.get("pos", k), "lin", ls) for k, ls in enumerate(stmt.get("linear") or [])]
    allc.sort(key=lambda t: t[0])
    for _, _, ls in allc:
        A = np.array(ls["A"], dtype=float).reshape(len(ls["A"]), -1)
        A = np.where(np.isnan(A), 0.0, A)
        m = A.shape[0]
        l_, u_ = _lims(ls, m)
        eq = [_is_eq_row(a, b) for a, b in zip(l_, u_)]
        for r in range(m):
            if eq[r]:
                rows_eq.append(A[r])
                rhs_eq.append(0.5 * (l_[r] + u_[r]))
        for r in range(m):
            if not eq[r] and u_[r] == u_[r] and abs(u_[r]) < math.inf:
                rows_ub.append(A[r])
                rhs_ub.append(u_[r])
        for r in range(m):
            if not eq[r] and l_[r] == l_[r] and abs(l_[r]) < math.inf:
                rows_ub.append(-A[r])
                rhs_ub.append(-l_[r])
    if len(rows_ub) != info["a_ub"].shape[0] or len(rows_eq) != info["a_eq"].shape[0]:
        return [Viol("C10", "faithful", "the solver works with %d inequality and %d equality rows, the user stated %d and %d"
                     % (info["a_ub"].shape[0], info["a_eq"].shape[0], len(rows_ub), len(rows_eq)), key="row_count")]
    free = ~fixed
    for _ in range(20):
        # random user-space point with the fixed variables at their values
        x = np.array([rng.uniform(-3, 3) for _ in range(n)])
        x[fixed] = fv
        z = (x[free] - info["shift"]) / info["factor"]
        x = x.copy()
        x[free] = z * info["factor"] + info["shift"]      # the exact image of z
        for rows, rhs, a_int, b_int, nm in ((rows_ub, rhs_ub, info["a_ub"], info["b_ub"], "inequality"),
                                            (rows_eq, rhs_eq, info["a_eq"], info["b_eq"], "equality")):
            for r in range(len(rows)):
                user = float(rows[r] @ x - rhs[r])
                internal = float(a_int[r] @ z - b_int[r])
                # rounding is relative to the terms the internal computation works with: under scaling these are
                # |A| (|factor z| + |shift|), which dwarf |A||x| when a bound is huge
                terms = np.abs(x)
                terms = terms.copy()
                terms[free] = np.abs(info["factor"] * z) + np.abs(info["shift"])
                tol = 1e-12 * (1.0 + float(np.abs(rows[r]) @ terms) + abs(rhs[r]))
                st["c10.faithful_rows"] += 1
                if not abs(user - internal) <= tol:
                    return [Viol("C10", "faithful", "linear %s row %d: the solver's residual is %r, the user's is %r at "
                                 "the corresponding point" % (nm, r, internal, user), key="residual:" + nm)]
    # evaluated points are images of the internal points
    ps = rec.probe
    evs, _ = eval_table(rec)
    if ps is not None and len(ps.evals) == len(evs):
        for k, (pe, e) in enumerate(zip(ps.evals, evs)):
            if e.xl is None:
                continue
            z = np.frombuffer(pe["xi"], dtype=float)
            x = np.empty(n)
            x[fixed] = fv
            x[free] = z * info["factor"] + info["shift"]
            x = np.clip(x, lb, ub)
            st["c10.faithful_points"] += 1
            if np.any(np.abs(x - np.array(e.xl)) > 1e-12 * np.maximum(1.0, np.abs(x))):
                return [Viol("C10", "faithful", "evaluation %d was made at %r, the image of the solver's point is %r"
                             % (k + 1, e.xl, x.tolist()), key="image")]
    return out


def semantic_case(seed, idx, tier):
    cr = CaseResult()
    rs = Rng(seed, "scen", "C10m", idx)
    stmt = None
    for _ in range(20):
        cand = scenario.gen_statement(rs, PROF_SEM)
        b = cand.get("bounds")
        if b is None or not bounds_consistent(b["lb"], b["ub"]):
            continue
        nf = n_free_of(cand)
        scale = bool((cand.get("options") or {}).get("scale"))
        allfin = all(math.isfinite(v) for v in b["lb"] + b["ub"])
        if nf >= 1 and (nf < cand["n"] or (scale and allfin)):
            stmt = cand
            break
    if stmt is None:
        cr.stats["c10.no_semantic_statement"] += 1
        return cr
    st = cr.stats
    base0 = run_client(stmt, [], normalize_layout=True)
    cr.account(base0)
    if base0.harness_error or base0.probe is None or base0.probe.pbinfo is None:
        st["c10.semantic_not_evaluated"] += 1
        return cr
    rf = Rng(seed, "fault", "C10m", idx)
    plan = scenario.gen_fault_plan(rf, stmt, _nevals(base0), 0, allow_linalg=False, point_keyed_only=True)
    plan = [f for f in plan if f["kind"] != "cache_off"]
    ra = run_client(stmt, plan, normalize_layout=True) if plan else base0
    if plan:
        cr.account(ra, nontrivial_needs_fault=True)
    if ra.harness_error or ra.exc is not None:
        return cr
    info = ra.probe.pbinfo
    vs = faithfulness(stmt, info, ra, rf, st)
    payload = {"engine": "faithful", "stmt": stmt, "faults": plan, "rng": [seed, idx]}
    cr.add_viols(vs, payload)
    scaled = bool(np.any(info["factor"] != 1.0) or np.any(info["shift"] != 0.0))
    what = ("scale" if scaled else "") + ("+" if scaled and info["fixed_idx"].any() else "") + \
           ("fixed" if info["fixed_idx"].any() else "")
    st["c10.semantic_" + what] += 1
    # guard: the two statements clip at different moments when a trial point leaves the box by rounding
    inside = True
    for pe in ra.probe.evals:
        z = np.frombuffer(pe["xi"], dtype=float)
        if np.any(z < info["xl"]) or np.any(z > info["xu"]):
            inside = False
    if not inside:
        st["c10.noleak_skipped_rounding_outside_box"] += 1
        return cr
    s2, order = build_restated(stmt, info)
    plan2 = remap_faults(plan, order)
    rb = run_client(s2, plan2, normalize_layout=True)
    cr.account(rb, nontrivial_needs_fault=bool(plan))
    if rb.harness_error:
        return cr
    vs = noleak_verdict(ra, rb, info, what)
    cr.add_viols(vs, {"engine": "pair", "stmt": stmt, "faults": plan, "stmt2": s2, "faults2": plan2,
                      "what": "noleak:" + what, "semantic": True})
    cr.sample = {"what": what, "stmt": stmt, "restated": {k: s2[k] for k in ("n", "x0", "bounds", "linear", "embed")}}
    return cr


def remap_faults(plan, order):
    inv = {old: new for new, old in enumerate(order)}
    out = []
    for f in plan:
        t = f.get("target")
        if isinstance(t, list) and t[0] == "con":
            f = copy.deepcopy(f)
            f["target"] = ["con", inv[t[1]], t[2]]
        out.append(f)
    return out


def noleak_verdict(ra, rb, info, what):
    if rb.exc is not None:
        return [Viol("C10", "noleak", "the explicitly restated problem raised %s" % rb.exc["type"], key="raise:" + what)]
    fa = ra.probe.final if ra.probe is not None else None
    fb = rb.probe.final if rb.probe is not None else None
    if fa is not None and fb is not None:
        for key in ("maxfev", "maxiter", "nb_points", "rhoend"):
            if fa.get(key) != fb.get(key):
                return [Viol("C10", "noleak", "the completed option %s is %r for the statement as given and %r for the "
                             "explicitly restated problem: a default depends on the eliminated variables or the scaling"
                             % (key, fa.get(key), fb.get(key)), key="default_option:" + key)]
    ta, r1 = trace(ra)
    tb, r2 = trace(rb)
    fixed = info["fixed_idx"]
    xb_full = None
    if rb.res is not None:
        from .peers import embed_map
        xb_full = embed_map(rb.stmt["embed"], np.array(rb.res["x"], dtype=float))
    return compare(ta, r1, tb, r2, ra.res["x"], xb_full, "noleak:" + what, clause="noleak")


def replay(p):
    if p["engine"] == "faithful":
        ra = run_client(p["stmt"], p["faults"], normalize_layout=True)
        rng = Rng(p["rng"][0], "fault", "C10m", p["rng"][1])
        return faithfulness(p["stmt"], ra.probe.pbinfo, ra, rng, Counter())
    ra = run_client(p["stmt"], p["faults"], normalize_layout=True)
    rb = run_client(p["stmt2"], p["faults2"], normalize_layout=True)
    if p.get("semantic"):
        return noleak_verdict(ra, rb, ra.probe.pbinfo, p["what"].split(":", 1)[1])
    return pair_verdict(ra, rb, p["what"])


def c10_case(seed, idx, tier):
    if idx % 2 == 0:
        return syntactic_case(seed, idx, tier)
    return semantic_case(seed, idx, tier)
