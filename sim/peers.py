"""The solver's peers: scripted objective / constraint / callback stubs.

Every invocation is a request (a point) and a reply (a value, a fault, an
exception).  Each one is appended to the client's history with the exact byte
image of the array received (copied first, so later mutation by anyone shows
up as a difference instead of being hidden).
"""
import functools
import math

import numpy as np

from .funcs import eval_scalar, _noise_unit


class PeerError(Exception):
    """Raised by harness code only (never by a scripted peer)."""


FAULT_VALUES = {
    "nan": math.nan,
    "pinf": math.inf,
    "ninf": -math.inf,
    "huge": 1e300,
    "nhuge": -1e300,
}


CRASH_TYPES = {"stop": StopIteration, "runtime": RuntimeError, "lookup": KeyError, "arith": ZeroDivisionError}


class ClientCtx:
    """Per-client simulation context: history, counters, fault plan."""

    def __init__(self, world, cid, stmt, faults):
        self.world = world
        self.cid = cid
        self.stmt = stmt
        self.events = []
        self.obj_calls = 0
        self.eval_idx = 0           # maintained by the Problem.__call__ seam
        self.con_calls = [0] * len(stmt.get("nonlinear") or [])
        self.cb_calls = 0
        self.cb_raised = False
        self.fired = {}
        self.probe = None           # ProbeState, set by world when probes are on
        self.in_probe = 0           # >0 while harness probe code evaluates solver functions
        self.reply_faults = [f for f in faults if f["kind"] in FAULT_VALUES or f["kind"] in ("noise", "crash")]
        self.crash_exc = None       # the exception object a crashing peer raised (fault kind "crash")
        self.linalg_faults = [f for f in faults if f["kind"] == "linalg"]
        self.linalg_calls = {}
        self.knobs = [f for f in faults if f["kind"] in ("cache_off",)]
        pz = [f for f in faults if f["kind"] == "poison_empty"]
        self.poison = pz[0].get("pattern", 0) if pz else None
        self.poison_calls = 0
        self.inner_results = []

    # -- history ---------------------------------------------------------
    def log(self, ev):
        ev["seq"] = self.world.tick()
        ev["c"] = self.cid
        if self.in_probe:
            ev["probe"] = True
        self.events.append(ev)

    def fire(self, kind):
        self.fired[kind] = self.fired.get(kind, 0) + 1

    # -- reply faults ----------------------------------------------------
    def _applies(self, fault, idx, x):
        when = fault["when"]
        if "at" in when:
            return idx == when["at"]
        if "from" in when:
            return idx >= when["from"]
        if "half" in when:
            h = when["half"]
            return sum(a * xi for a, xi in zip(h["a"], x)) > h["b"]
        if "ball" in when:
            b = when["ball"]
            return sum((xi - ci) ** 2 for xi, ci in zip(x, b["c"])) <= b["r"] ** 2
        return False

    def faulted(self, target, idx, x, xb, value):
        """Apply the reply faults of `target` to `value`; return (value, kind)."""
        kind = None
        for f in self.reply_faults:
            if f["target"] != target:
                continue
            if not self._applies(f, idx, x):
                continue
            if f["kind"] == "crash":
                # the peer dies inside the call: a user function raising at this evaluation (never inside a probe)
                if self.in_probe or self.crash_exc is not None:
                    continue
                exc = CRASH_TYPES[f.get("exc", "runtime")]("peer crash at %s#%d" % (target, idx))
                self.crash_exc = exc
                self.fire("crash:" + f.get("exc", "runtime"))
                self.log({"k": "crash", "target": target if isinstance(target, str) else list(target), "i": idx})
                raise exc
            if f["kind"] == "noise":
                value = value + f.get("amp", 1e-9) * _noise_unit(xb, 77)
            else:
                value = FAULT_VALUES[f["kind"]]
            kind = f["kind"]
            self.fire(kind)
        return value, kind


def embed_map(emb, y):
    """Map the variables of an explicitly restated (reduced / rescaled) problem
    back to the user's variables, with the very expression cobyqa's build_x uses."""
    fixed = np.array(emb["fixed_idx"], dtype=bool)
    x_full = np.empty(fixed.size)
    x_full[fixed] = np.array(emb["fixed_val"], dtype=float)
    x_full[~fixed] = (y * np.array(emb["factor"], dtype=float)
                      + np.array(emb["shift"], dtype=float))
    return np.clip(x_full, np.array(emb["clip_lb"], dtype=float), np.array(emb["clip_ub"], dtype=float))


def _encode_scalar(v, ret, buf=None):
    if ret in ("arr1_reused", "arr0_reused") and buf is not None:
        # naive user code returning the same preallocated array on every call (overwritten each time)
        buf[...] = v
        return buf
    if ret == "float":
        return float(v)
    if ret == "np64":
        return np.float64(v)
    if ret == "arr0":
        return np.array(v, dtype=float)
    if ret == "arr1":
        return np.array([v], dtype=float)
    if ret == "int":
        if math.isfinite(v) and float(v).is_integer() and abs(v) < 2 ** 52:
            return int(v)
        return float(v)
    raise PeerError("bad ret %r" % (ret,))


def make_objective(ctx, spec):
    """Return the objective callable (a plain function) or None."""
    if spec is None:
        return None
    ret = spec.get("ret", "float")

    emb = ctx.stmt.get("embed")
    buf = np.zeros(1) if ret == "arr1_reused" else (np.zeros(()) if ret == "arr0_reused" else None)
    strict = bool(ctx.stmt.get("strict_dims"))

    def fun(x, *args):
        xa = np.array(x, dtype=float)
        if strict and emb is None and xa.shape != (ctx.stmt["n"],):
            raise IndexError("index %d is out of bounds for axis 0 with size %d" % (ctx.stmt["n"] - 1, xa.size))
        if emb is not None:
            xa = embed_map(emb, xa)
        xb = xa.tobytes()
        xl = xa.tolist()
        ctx.world.yield_point(ctx, "obj.call")
        ctx.obj_calls += 1
        idx = ctx.obj_calls
        v = eval_scalar(spec, xl, xb)
        if args:
            v += args[0]
        v, fk = ctx.faulted("obj", idx, xl, xb, v)
        ctx.log({"k": "obj", "x": xb, "v": float(v), "f": fk, "i": idx,
                 "shape": tuple(np.shape(x)), "nargs": len(args), "args": [float(a) for a in args]})
        if spec.get("mutates") and isinstance(x, np.ndarray) and x.flags.writeable:
            x[...] = 77.0           # naive user code overwriting the array it was given
            ctx.fire("mutate-input")
        hook = ctx.world.reenter_hook
        if hook is not None:
            hook(ctx, "obj", idx)
        ctx.world.yield_point(ctx, "obj.ret")
        return _encode_scalar(v, ret, buf)

    fun.__name__ = spec.get("name", "fun")
    return fun


def make_constraint_fun(ctx0, j, spec, shared=False):
    """Return the callable of nonlinear constraint object j.  With shared=True the very same function object
    serves several concurrent clients (C11.d): the client is then looked up from the calling thread."""
    comps = spec["comps"]
    ret = spec.get("ret", "ndarray")
    has_obj = ctx0.stmt.get("obj") is not None
    twin = bool(ctx0.stmt.get("twin"))

    emb = ctx0.stmt.get("embed")
    n_full = len(emb["fixed_idx"]) if emb is not None else ctx0.stmt["n"]

    cbuf = np.zeros(len(comps)) if ret == "ndarray_reused" else None
    strict = bool(ctx0.stmt.get("strict_dims"))

    def con(x, *args):
        ctx = ctx0
        if shared:
            from . import probes
            ctx = probes.cur() or ctx0
        xa = np.array(x, dtype=float)
        if strict and emb is None and xa.shape != (ctx0.stmt["n"],):
            # a real user function indexing its argument fails when handed the solver's reduced variables
            ctx.log({"k": "con", "j": j, "x": xa.tobytes(), "v": [], "f": [], "i": 0, "shape": tuple(np.shape(x)),
                     "nargs": len(args), "args": [float(a) for a in args], "ncall": ctx.con_calls[j]})
            raise IndexError("index %d is out of bounds for axis 0 with size %d" % (ctx0.stmt["n"] - 1, xa.size))
        if emb is not None and xa.shape == (ctx.stmt["n"],):
            xa = embed_map(emb, xa)
        xb = xa.tobytes()
        xl = xa.tolist()
        ctx.world.yield_point(ctx, "con.call")
        ctx.con_calls[j] += 1
        # faults are keyed by evaluation index, not by how often scipy's cache let the call through
        idx = ctx.obj_calls if has_obj else (ctx.eval_idx or ctx.con_calls[j])
        vals = []
        fks = []
        bad_dim = len(xl) != n_full
        for ci, cs in enumerate(comps):
            if bad_dim:
                # called in the solver's internal variables: a reply is still
                # needed; evaluate on a zero-padded / truncated point.
                xe = (xl + [0.0] * n_full)[: n_full]
            else:
                xe = xl
            v = eval_scalar(cs, xe, xb)
            if cs.get("post_add") is not None:
                v += cs["post_add"]
            if args:
                v += args[0]
            # twin constraints (C12.b) must receive bit-identical data: they share the objective's faults
            v, fk = ctx.faulted("obj" if twin else ["con", j, ci], idx, xe, xb, v)
            vals.append(float(v))
            fks.append(fk)
        ctx.log({"k": "con", "j": j, "x": xb, "v": vals, "f": fks, "i": idx,
                 "shape": tuple(np.shape(x)), "nargs": len(args), "args": [float(a) for a in args],
                 "ncall": ctx.con_calls[j]})
        if spec.get("mutates") and isinstance(x, np.ndarray) and x.flags.writeable:
            x[...] = -77.0
            ctx.fire("mutate-input")
        ctx.world.yield_point(ctx, "con.ret")
        if cbuf is not None:
            # one reused output buffer per *caller*: a function object shared by concurrent clients that handed
            # every thread the same buffer would itself be racy user code, which is not what is being tested
            b = cbuf if not shared else ctx.__dict__.setdefault("_cbuf%d" % j, np.zeros(len(comps)))
            b[...] = vals
            return b
        if ret in ("intlist", "intarray", "intscalar", "bool"):
            # integer-valued replies handed back as Python ints / an integer array / booleans when they are integral
            if all(math.isfinite(v) and float(v).is_integer() and abs(v) < 2 ** 52 for v in vals):
                iv = [int(v) for v in vals]
                if ret == "intlist":
                    return iv
                if ret == "intscalar" and len(iv) == 1:
                    return iv[0]
                if ret == "bool" and all(v in (0, 1) for v in iv):
                    return np.array([bool(v) for v in iv])
                return np.array(iv, dtype=np.int64)
            return np.array(vals, dtype=float)
        if ret == "list":
            return list(vals)
        if ret == "tuple":
            return tuple(vals)
        if ret == "scalar":
            return vals[0]
        return np.array(vals, dtype=float)

    con.__name__ = "con%d" % j
    style = spec.get("callable", "function")
    if style == "function":
        return con
    obj = _ConObj(con)
    ctx0.__dict__.setdefault("con_objs", {})[j] = obj
    if style == "method":
        return obj.evaluate
    if style == "instance":
        return obj
    if style == "partial":
        return functools.partial(_con_with_tag, obj, "tag")
    raise PeerError("bad constraint callable style %r" % (style,))


class _ConObj:
    """A stateful user object whose method / __call__ is the constraint function (e.g. a simulation shared by
    objective and constraints).  It counts the calls it receives itself: if the library evaluates a private
    copy of it instead, the user's own object never hears of the evaluations."""

    def __init__(self, fn):
        self.fn = fn
        self.count = 0

    def evaluate(self, x, *args):
        self.count += 1
        return self.fn(x, *args)

    def __call__(self, x, *args):
        self.count += 1
        return self.fn(x, *args)


def _con_with_tag(obj, tag, x, *args):
    obj.count += 1
    return obj.fn(x, *args)


def make_jacobian(ctx, j, spec):
    """A user-supplied Jacobian (documented as disregarded by cobyqa): every call is logged."""
    m = len(spec["comps"])

    def jac(x, *args):
        ctx.log({"k": "jac", "j": j, "x": np.array(x, dtype=float).tobytes()})
        return np.zeros((m, np.size(x)))

    return jac


class _CbObj:
    def __init__(self, body):
        self._body = body

    def __call__(self, xk):
        return self._body(xk, None)


class _CbObjFalsy:
    """A callable recorder that tests as false (it defines __len__, like a list subclass that is still empty)."""

    def __init__(self, body):
        self._body = body

    def __len__(self):
        return 0

    def __call__(self, xk):
        return self._body(xk, None)


class _CbObjKw:
    def __init__(self, body):
        self._body = body

    def __call__(self, intermediate_result):
        return self._body(None, intermediate_result)


def make_callback(ctx, spec):
    """Return the callback callable in the style asked for, or None."""
    if spec is None:
        return None
    style = spec.get("style", "pos")
    stop_at = spec.get("stop_at")
    mutate = spec.get("mutate", False)

    def body(xk, intermediate_result):
        ctx.world.yield_point(ctx, "cb.call")
        ctx.cb_calls += 1
        k = ctx.cb_calls
        if intermediate_result is not None:
            how = "kw"
            arr = getattr(intermediate_result, "x", None)
            fv = getattr(intermediate_result, "fun", None)
            keys = sorted(intermediate_result.keys()) if hasattr(intermediate_result, "keys") else None
            typ = type(intermediate_result).__name__
        else:
            how = "pos"
            arr = xk
            fv = None
            keys = None
            typ = type(xk).__name__
        ok_arr = isinstance(arr, np.ndarray)
        xb = np.array(arr, dtype=float).tobytes() if arr is not None else b""
        ev = {"k": "cb", "x": xb, "how": how, "typ": typ, "i": k,
              "is_arr": ok_arr, "keys": keys,
              "shape": tuple(np.shape(arr)) if arr is not None else None,
              "fun": None if fv is None else float(fv)}
        ctx.log(ev)
        if mutate and ok_arr and arr.flags.writeable:
            arr[...] = 99.0
            ctx.fire("mutate-arg")
        hook = ctx.world.reenter_hook
        if hook is not None:
            hook(ctx, "cb", k)
        if stop_at is not None and k == stop_at:
            ctx.cb_raised = True
            ctx.fire("stop")
            ctx.log({"k": "cb_raise", "i": k})
            ctx.world.yield_point(ctx, "cb.raise")
            raise StopIteration
        ctx.world.yield_point(ctx, "cb.ret")

    if style == "pos":
        def cb(xk):
            return body(xk, None)
        return cb
    if style == "kw":
        def cb(intermediate_result):
            return body(None, intermediate_result)
        return cb
    if style == "obj":
        return _CbObj(body)
    if style == "objkw":
        return _CbObjKw(body)
    if style == "objfalsy":
        return _CbObjFalsy(body)
    if style == "partial":
        def cb2(tag, xk):
            return body(xk, None)
        return functools.partial(cb2, "tag")
    if style == "partialkw":
        def cb3(tag, intermediate_result):
            return body(None, intermediate_result)
        return functools.partial(cb3, "tag")
    if style == "lambda":
        return lambda xk: body(xk, None)
    if style == "posdefault":
        def cb4(xk, extra=None):
            return body(xk, None)
        return cb4
    raise PeerError("bad callback style %r" % (style,))
