"""Read-only probes and fault seams, installed by the harness at run time.

Nothing in /repo is edited: the seams are class attributes and module
attributes of the imported cobyqa package.  Every wrapper is a pass-through
when no simulated client is current on the calling thread.  If a probed name
does not exist (a refactor renamed it) the probe is skipped and recorded in
MISSING; clauses that need it are then reported as not evaluated.
"""
import threading

import numpy as np

_tls = threading.local()
MISSING = []
INSTALLED = False
EPS = np.finfo(float).eps


def push(ctx):
    st = getattr(_tls, "stack", None)
    if st is None:
        st = _tls.stack = []
    st.append(ctx)


def pop():
    _tls.stack.pop()


def cur():
    st = getattr(_tls, "stack", None)
    return st[-1] if st else None


class ProbeState:
    def __init__(self):
        self.pb = None
        self.framework = None
        self.next_kind = "init"
        self.evals = []          # one dict per Problem.__call__
        self.iters = []          # one dict per get_trust_region_step entry
        self.model_ops = []      # one dict per update / shift / reset
        self.removals = []       # get_index_to_remove results
        self.resolutions = []    # (before, after) of enhance_resolution
        self.final = None        # dict at _build_result
        self.pbinfo = None       # reduced / scaled problem data
        self.kinds = {}
        self.errors = []         # exceptions inside probe code (probe gives up)


def _active():
    ctx = cur()
    if ctx is None or ctx.probe is None or ctx.in_probe:
        return None
    return ctx


def kkt_cond(xpt, scale=None):
    """Condition number of the scaled interpolation (KKT) matrix, computed
    independently of cobyqa.models.build_system.  By default the points are
    normalised by the largest norm (scale-invariant); with `scale` they are
    measured against that fixed length (a whole set that is tiny or huge
    relative to the trust region is then ill-conditioned too)."""
    n, npt = xpt.shape
    if scale is None:
        scale = max(float(np.max(np.linalg.norm(xpt, axis=0), initial=0.0)), EPS)
    xs = xpt / scale
    a = np.zeros((npt + n + 1, npt + n + 1))
    a[:npt, :npt] = 0.5 * (xs.T @ xs) ** 2
    a[:npt, npt] = 1.0
    a[npt, :npt] = 1.0
    a[:npt, npt + 1:] = xs.T
    a[npt + 1:, :npt] = xs
    if not np.all(np.isfinite(a)):
        return np.inf
    w = np.abs(np.linalg.eigvalsh(a))
    mn = float(np.min(w))
    return np.inf if mn == 0.0 else float(np.max(w)) / mn


def _interp_errors(models):
    """Largest interpolation error of each model family, and magnitudes."""
    itp = models.interpolation
    npt = itp.npt
    e_fun = 0.0
    e_cub = np.zeros(models.cub_val.shape[1])
    e_ceq = np.zeros(models.ceq_val.shape[1])
    for k in range(npt):
        p = itp.point(k)
        e_fun = max(e_fun, abs(float(models.fun(p)) - float(models.fun_val[k])))
        if e_cub.size:
            e_cub = np.maximum(e_cub, np.abs(models.cub(p) - models.cub_val[k, :]))
        if e_ceq.size:
            e_ceq = np.maximum(e_ceq, np.abs(models.ceq(p) - models.ceq_val[k, :]))
    return e_fun, e_cub, e_ceq


def _snapshot_models(ctx, models, op, extra=None):
    ps = ctx.probe
    ctx.in_probe += 1
    try:
        rec = {"op": op, "seq": ctx.world.tick()}
        try:
            itp = models.interpolation
            tabs_finite = bool(np.all(np.isfinite(models.fun_val)) and np.all(np.isfinite(models.cub_val))
                               and np.all(np.isfinite(models.ceq_val)))
            rec["tables_finite"] = tabs_finite
            rec["cond"] = kkt_cond(np.array(itp.xpt, dtype=float))
            e_fun, e_cub, e_ceq = _interp_errors(models)
            rec["e_fun"] = float(e_fun)
            rec["e_cub"] = [float(v) for v in e_cub]
            rec["e_ceq"] = [float(v) for v in e_ceq]
            rec["mag_fun"] = float(np.max(np.abs(models.fun_val), initial=0.0))
            rec["mag_cub"] = [float(v) for v in np.max(np.abs(models.cub_val), axis=0, initial=0.0)]
            rec["mag_ceq"] = [float(v) for v in np.max(np.abs(models.ceq_val), axis=0, initial=0.0)]
            rec["npt"] = int(itp.npt)
            rec["n"] = int(itp.n)
            rec["same_data"] = bool(all(np.array_equal(models.fun_val, t[:, i])
                                        for t in (models.cub_val, models.ceq_val) for i in range(t.shape[1])))
            xpt = np.array(itp.xpt, dtype=float)
            rec["set_scale"] = float(np.max(np.linalg.norm(xpt, axis=0), initial=0.0))
            rec["abs_max"] = float(np.max(np.abs(xpt + np.array(itp.x_base, dtype=float)[:, None]), initial=0.0))
        except Exception as e:  # probe gives up for this event
            rec["error"] = "%s: %s" % (type(e).__name__, e)
            ps.errors.append(rec["error"])
        if extra:
            rec.update(extra)
        ps.model_ops.append(rec)
    finally:
        ctx.in_probe -= 1


def _iter_snapshot(ctx, tr, where="iteration"):
    ps = ctx.probe
    ctx.in_probe += 1
    try:
        rec = {"seq": ctx.world.tick(), "where": where}
        try:
            rec["radius"] = float(tr.radius)
            rec["resolution"] = float(tr.resolution)
            rec["penalty"] = float(tr.penalty)
            rec["best"] = int(tr.best_index)
            rec["rhoend"] = float(ps.options["radius_final"])
            m = tr.models
            info = ps.pbinfo
            merits = []
            viols = []
            vscales = []
            for k in range(m.npt):
                # own merit value from the stored tables (no solver code,
                # no user call): f + penalty * ||violation||_2
                xk = np.array(m.interpolation.point(k), dtype=float)
                parts = [np.maximum(info["a_ub"] @ xk - info["b_ub"], 0.0),
                         np.abs(info["a_eq"] @ xk - info["b_eq"]),
                         np.maximum(np.array(m.cub_val[k, :], dtype=float), 0.0),
                         np.abs(np.array(m.ceq_val[k, :], dtype=float))]
                cv = np.concatenate(parts)
                mv = float(m.fun_val[k])
                if rec["penalty"] > 0.0 and np.count_nonzero(cv):
                    mv += rec["penalty"] * float(np.linalg.norm(cv))
                merits.append(mv)
                viols.append(float(np.max(cv, initial=0.0)))
                # magnitude of the terms the linear residuals are computed from (their rounding scale)
                sc = 0.0
                for a_, b_ in ((info["a_ub"], info["b_ub"]), (info["a_eq"], info["b_eq"])):
                    if a_.shape[0]:
                        sc = max(sc, float(np.max(np.abs(a_) @ np.abs(xk) + np.abs(b_))))
                vscales.append(sc)
            rec["viols"] = viols
            rec["vscales"] = vscales
            rec["merits"] = merits
            rec["npt"] = int(m.npt)
            rec["n"] = int(m.n)
        except Exception as e:
            rec["error"] = "%s: %s" % (type(e).__name__, e)
            ps.errors.append(rec["error"])
        ps.iters.append(rec)
    finally:
        ctx.in_probe -= 1



def install(cobyqa):
    """Install all wrappers once per process."""
    global INSTALLED
    if INSTALLED:
        return
    INSTALLED = True
    import cobyqa.problem as P
    import cobyqa.models as M
    import cobyqa.framework as F
    import cobyqa.main as MAIN

    def wrap(owner, name, maker):
        orig = getattr(owner, name, None)
        if orig is None:
            MISSING.append("%s.%s" % (getattr(owner, "__name__", owner), name))
            return
        new = maker(orig)
        new.__wrapped__ = orig
        try:
            new.__name__ = getattr(orig, "__name__", name)
            new.__qualname__ = getattr(orig, "__qualname__", name)
        except Exception:
            pass
        setattr(owner, name, new)

    # ---- fault seam: eigh ------------------------------------------------
    def mk_eigh(orig):
        def eigh(*a, **k):
            ctx = cur()
            if ctx is not None and not ctx.in_probe:
                cnt = ctx.linalg_calls.get("eigh", 0) + 1
                ctx.linalg_calls["eigh"] = cnt
                for f in ctx.linalg_faults:
                    if f.get("fn", "eigh") == "eigh" and (f.get("at") == cnt or (f.get("from") is not None and cnt >= f["from"])):
                        ctx.fire("linalg")
                        ctx.log({"k": "linalg_fail", "fn": "eigh", "i": cnt})
                        raise np.linalg.LinAlgError("simulated: eigenvalues did not converge")
            return orig(*a, **k)
        return eigh
    wrap(M, "eigh", mk_eigh)

    # ---- buggify knob: factorisation cache always misses ------------------
    def mk_build_system(orig):
        def build_system(interpolation):
            ctx = cur()
            if ctx is not None and ctx.knobs and not ctx.in_probe:
                try:
                    interpolation._lhs_cache = None
                    ctx.fired["cache_off"] = ctx.fired.get("cache_off", 0) + 1
                except Exception:
                    pass
            return orig(interpolation)
        return build_system
    wrap(M, "build_system", mk_build_system)

    # ---- determinism seam: memory layout of the linear-constraint matrices ----------
    # OpenBLAS picks its gemv kernel by memory layout, and numpy's advanced indexing /
    # matmul return arrays whose layout is unspecified; two statements of one problem can
    # therefore round A @ x differently by one ulp.  In paired (C10) worlds the layout is
    # normalised to C order in both runs; values are never changed.
    try:
        base_lc = P.LinearConstraint

        class _LayoutLinearConstraint(base_lc):
            def __init__(self, A, *a, **k):
                ctx = cur()
                if ctx is not None and getattr(ctx, "normalize_layout", False):
                    A = np.ascontiguousarray(A)
                super().__init__(A, *a, **k)

        _LayoutLinearConstraint.__name__ = "LinearConstraint"
        P.LinearConstraint = _LayoutLinearConstraint
    except Exception:
        MISSING.append("problem.LinearConstraint")

    def mk_lcs_init(orig):
        def __init__(self, *a, **k):
            orig(self, *a, **k)
            ctx = cur()
            if ctx is not None and getattr(ctx, "normalize_layout", False):
                try:
                    self._a_ub = np.ascontiguousarray(self._a_ub)
                    self._a_eq = np.ascontiguousarray(self._a_eq)
                except Exception:
                    pass
        return __init__
    wrap(P.LinearConstraints, "__init__", mk_lcs_init)

    # ---- fault seam: the allocator hands out dirty memory --------------------------------------
    # np.empty returns whatever the heap holds.  In a deterministic simulation that is a source of
    # nondeterminism the result must not depend on, so it goes behind a seam: with the knob
    # `poison_empty` every float array obtained from np.empty / np.empty_like inside cobyqa is
    # pre-filled with a seeded garbage value (NaN, +-1e300, +-1).  Correct code writes every element
    # before reading it, so the run must be bit-identical with and without the knob.
    try:
        import types as _types
        prox = _types.SimpleNamespace(**vars(np))
        real_empty, real_empty_like = np.empty, np.empty_like
        POISON = [float("nan"), 1e300, -1.0, 1.0, -1e300]

        def _poison(arr):
            ctx = cur()
            pat = getattr(ctx, "poison", None) if ctx is not None else None
            if pat is not None and isinstance(arr, np.ndarray) and arr.dtype.kind == "f" and arr.size:
                ctx.poison_calls += 1
                arr.fill(POISON[(pat + ctx.poison_calls) % len(POISON)])
                ctx.fired["poison_empty"] = ctx.fired.get("poison_empty", 0) + 1
            return arr

        def empty(*a, **k):
            return _poison(real_empty(*a, **k))

        def empty_like(*a, **k):
            return _poison(real_empty_like(*a, **k))

        prox.empty = empty
        prox.empty_like = empty_like
        import cobyqa.subsolvers.optim as SO
        import cobyqa.subsolvers.geometry as SG
        import cobyqa.utils.math as UM
        for mod in (P, M, F, MAIN, SO, SG, UM):
            if getattr(mod, "np", None) is np:
                mod.np = prox
            else:
                MISSING.append("%s.np" % mod.__name__)
    except Exception as e:
        MISSING.append("np.empty seam: %s" % e)

    # ---- Problem ------------------------------------------------------------
    def mk_pb_init(orig):
        def __init__(self, *a, **k):
            orig(self, *a, **k)
            ctx = _active()
            if ctx is None:
                return
            ps = ctx.probe
            ps.pb = self
            try:
                ps.pbinfo = {
                    "fixed_idx": np.array(self._fixed_idx, dtype=bool),
                    "fixed_val": np.array(self._fixed_val, dtype=float),
                    "factor": np.array(self._scaling_factor, dtype=float),
                    "shift": np.array(self._scaling_shift, dtype=float),
                    "xl": np.array(self.bounds.xl, dtype=float),
                    "xu": np.array(self.bounds.xu, dtype=float),
                    "x0": np.array(self.x0, dtype=float),
                    "a_ub": np.array(self.linear.a_ub, dtype=float),
                    "b_ub": np.array(self.linear.b_ub, dtype=float),
                    "a_eq": np.array(self.linear.a_eq, dtype=float),
                    "b_eq": np.array(self.linear.b_eq, dtype=float),
                    "feasible": bool(self.bounds.is_feasible),
                }
            except Exception as e:
                ps.errors.append("pbinfo: %s: %s" % (type(e).__name__, e))
        return __init__
    wrap(P.Problem, "__init__", mk_pb_init)

    def mk_pb_call(orig):
        def __call__(self, x, penalty=0.0):
            c0 = cur()
            if c0 is not None and not c0.in_probe:
                # the evaluation index that keys reply faults (independent of whether probes record)
                c0.eval_idx += 1
            ctx = _active()
            if ctx is None:
                return orig(self, x, penalty)
            ps = ctx.probe
            xi = np.array(x, dtype=float)
            kind = ps.next_kind
            rec = {"kind": kind, "xi": xi.tobytes(), "penalty": float(penalty)}
            info = ps.pbinfo
            if info is not None and info["feasible"] and xi.shape == info["xl"].shape:
                # "inside up to rounding": the trial point is centre + step, so the rounding that counts is
                # relative to the larger of |bound|, |trial point| and |centre| (a centre at 1e22 cannot
                # resolve a bound at -0.6)
                centre = np.abs(info["x0"])
                try:
                    tr = ps.framework
                    if tr is not None and kind != "init":
                        centre = np.abs(np.array(tr.x_best, dtype=float))
                except Exception:
                    pass
                # ... and of the largest magnitude the coordinate has had so far in this run: an offset lost
                # to rounding at scale S stays lost when the iterates come back
                seen = getattr(ps, "scale_seen", None)
                if seen is None or seen.shape != centre.shape:
                    seen = np.zeros_like(centre)
                seen = np.maximum(seen, np.maximum(centre, np.where(np.isfinite(xi), np.abs(xi), 0.0)))
                # the step is a sum of parts (normal, tangential, correction) each as large as the trust-region
                # radius: their cancellation rounds at eps * radius
                try:
                    if ps.framework is not None and kind != "init":
                        seen = np.maximum(seen, float(ps.framework.radius))
                except Exception:
                    pass
                ps.scale_seen = seen
                centre = seen
                with np.errstate(invalid="ignore"):
                    ex = np.maximum(np.maximum(info["xl"] - xi, xi - info["xu"]), 0.0)
                    allow = 64 * EPS * np.maximum(np.maximum(1.0, centre), np.maximum(
                        np.where(np.isfinite(info["xl"]), np.abs(info["xl"]), 0.0),
                        np.maximum(np.where(np.isfinite(info["xu"]), np.abs(info["xu"]), 0.0), np.abs(xi))))
                    over = ex - allow
                rec["excess"] = float(np.max(ex, initial=0.0))
                rec["outside"] = bool(np.any(over > 0.0))
            ps.kinds[kind] = ps.kinds.get(kind, 0) + 1
            if kind != "init" and ps.framework is not None and getattr(ps.framework, "_models", None) is not None:
                # the centre must be consistent with the penalty in force whenever a trial point is evaluated
                _iter_snapshot(ctx, ps.framework, where="evaluation:" + kind)
            ctx.log({"k": "begin", "kind": kind, "xi": rec["xi"]})
            try:
                out = orig(self, x, penalty)
            except BaseException as e:
                rec["exc"] = type(e).__name__
                ps.evals.append(rec)
                ctx.log({"k": "end", "exc": type(e).__name__})
                raise
            try:
                rec["fun"] = float(out[0])
                rec["cub"] = [float(v) for v in out[1]]
                rec["ceq"] = [float(v) for v in out[2]]
            except Exception as e:
                ps.errors.append("pb_call: %s" % e)
            ps.evals.append(rec)
            ctx.log({"k": "end"})
            return out
        return __call__
    wrap(P.Problem, "__call__", mk_pb_call)

    # ---- TrustRegion ----------------------------------------------------------
    def mk_tr_init(orig):
        def __init__(self, pb, options, constants):
            ctx = _active()
            if ctx is not None:
                ctx.probe.framework = self
                ctx.probe.next_kind = "init"
                ctx.probe.options = options
                ctx.probe.constants = constants
            orig(self, pb, options, constants)
            if ctx is not None:
                ps = ctx.probe
                try:
                    ps.rhoend = float(options["radius_final"])
                    ps.rhobeg = float(options["radius_init"])
                    _snapshot_models(ctx, self.models, "init")
                except Exception as e:
                    ps.errors.append("tr_init: %s" % e)
        return __init__
    wrap(F.TrustRegion, "__init__", mk_tr_init)

    def mk_tr_step(orig):
        def get_trust_region_step(self, options):
            ctx = _active()
            if ctx is not None:
                _iter_snapshot(ctx, self)
            out = orig(self, options)
            if ctx is not None:
                ctx.probe.next_kind = "tr"
            return out
        return get_trust_region_step
    wrap(F.TrustRegion, "get_trust_region_step", mk_tr_step)

    def mk_kind(label):
        def maker(orig):
            def f(self, *a, **k):
                out = orig(self, *a, **k)
                ctx = _active()
                if ctx is not None:
                    ctx.probe.next_kind = label
                return out
            return f
        return maker
    wrap(F.TrustRegion, "get_second_order_correction_step", mk_kind("soc"))
    wrap(F.TrustRegion, "get_geometry_step", mk_kind("geo"))

    def mk_remove(orig):
        def get_index_to_remove(self, x_new=None):
            out = orig(self, x_new)
            ctx = _active()
            if ctx is not None:
                try:
                    ctx.probe.removals.append({"k": int(out[0]), "best": int(self.best_index),
                                               "with_new": x_new is not None,
                                               "dist": float(out[1])})
                except Exception as e:
                    ctx.probe.errors.append("remove: %s" % e)
            return out
        return get_index_to_remove
    wrap(F.TrustRegion, "get_index_to_remove", mk_remove)

    def mk_enh(orig):
        def enhance_resolution(self, options):
            ctx = _active()
            before = (float(self.resolution), float(self.radius)) if ctx is not None else None
            out = orig(self, options)
            if ctx is not None:
                ctx.probe.resolutions.append({"before": before[0], "after": float(self.resolution),
                                              "radius_before": before[1], "radius_after": float(self.radius),
                                              "rhoend": float(options["radius_final"])})
            return out
        return enhance_resolution
    wrap(F.TrustRegion, "enhance_resolution", mk_enh)

    # ---- Models ---------------------------------------------------------------
    def mk_update(orig):
        def update_interpolation(self, k_new, x_new, fun_val, cub_val, ceq_val):
            ctx = _active()
            extra = None
            if ctx is not None:
                try:
                    best = ctx.probe.framework.best_index if ctx.probe.framework is not None else None
                    extra = {"k_new": int(k_new), "x_new": np.array(x_new, dtype=float).tobytes(),
                             "fun_val": float(fun_val),
                             "cub_val": [float(v) for v in cub_val],
                             "ceq_val": [float(v) for v in ceq_val],
                             "best_before": None if best is None else int(best)}
                    ctx.in_probe += 1
                    try:
                        extra["pred_fun"] = float(self.fun(np.array(x_new, dtype=float)))
                    finally:
                        ctx.in_probe -= 1
                except Exception as e:
                    ctx.probe.errors.append("update-pre: %s" % e)
            try:
                out = orig(self, k_new, x_new, fun_val, cub_val, ceq_val)
            except BaseException as e:
                if ctx is not None:
                    ctx.probe.model_ops.append({"op": "update", "exc": type(e).__name__})
                raise
            if ctx is not None:
                extra = extra or {}
                extra["ill"] = bool(out)
                _snapshot_models(ctx, self, "update", extra)
            return out
        return update_interpolation
    wrap(M.Models, "update_interpolation", mk_update)

    def mk_shift(orig):
        def shift_x_base(self, new_x_base, options):
            out = orig(self, new_x_base, options)
            ctx = _active()
            if ctx is not None:
                _snapshot_models(ctx, self, "shift")
            return out
        return shift_x_base
    wrap(M.Models, "shift_x_base", mk_shift)

    def mk_reset(orig):
        def reset_models(self):
            out = orig(self)
            ctx = _active()
            if ctx is not None:
                _snapshot_models(ctx, self, "reset")
            return out
        return reset_models
    wrap(M.Models, "reset_models", mk_reset)

    # ---- main._build_result -----------------------------------------------------
    def mk_build_result(orig):
        def _build_result(pb, penalty, success, status, n_iter, options):
            ctx = _active()
            if ctx is not None:
                ps = ctx.probe
                try:
                    fin = {"penalty": float(penalty), "status_in": getattr(status, "value", status),
                           "rhoend": float(options["radius_final"]),
                           "feasibility_tol": float(options["feasibility_tol"]),
                           "maxfev": int(options["maxfev"]), "maxiter": int(options["maxiter"]),
                           "target": float(options["target"]),
                           "nb_points": int(options["nb_points"])}
                    tr = ps.framework
                    if tr is not None and hasattr(tr, "_resolution"):
                        fin["resolution"] = float(tr.resolution)
                        fin["radius"] = float(tr.radius)
                    ps.final = fin
                except Exception as e:
                    ps.errors.append("build_result: %s" % e)
            return orig(pb, penalty, success, status, n_iter, options)
        return _build_result
    wrap(MAIN, "_build_result", mk_build_result)
