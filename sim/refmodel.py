"""Small executable reference models used as oracles.

V(stmt, x, con_raw): the independent user-space violation model.  It shares no
code with cobyqa: the largest of 0, lb-x, x-ub (NaN bounds = no bound), each
linear row (A x - ub)+, (lb - A x)+ (NaN coefficients = 0; NaN or infinite
one-sided limits dropped) computed from the user's own A, lb, ub at the
user-space point, and each nonlinear component (c - ub)+, (lb - c)+ from the
raw logged replies.
"""
import math

import numpy as np

BARRIER = 2.0 ** 100


def _limits(spec, m):
    lb, ub = spec["lb"], spec["ub"]
    lb = [lb] * m if not isinstance(lb, list) else lb
    ub = [ub] * m if not isinstance(ub, list) else ub
    return lb, ub


def nl_limits(ns):
    m = len(ns["comps"])
    if ns.get("form", "nlc") == "dict":
        if ns["type"] == "ineq":
            return [0.0] * m, [math.inf] * m
        return [0.0] * m, [0.0] * m
    return _limits(ns, m)


def violation(stmt, x, con_raw):
    """Return (V, scale, has_nan): scale is the magnitude that rounding in the
    linear rows is relative to."""
    x = [float(v) for v in x]
    n = len(x)
    v = 0.0
    scale = 1.0
    has_nan = False
    b = stmt.get("bounds")
    if b is not None:
        for i in range(n):
            lo, hi = b["lb"][i], b["ub"][i]
            if lo == lo and lo > -math.inf:
                v = max(v, lo - x[i])
            if hi == hi and hi < math.inf:
                v = max(v, x[i] - hi)
    for ls in stmt.get("linear") or []:
        A = ls["A"]
        m = len(A)
        lb, ub = _limits(ls, m)
        for r in range(m):
            ax = 0.0
            mag = 0.0
            for i in range(n):
                a = A[r][i]
                if a != a:
                    a = 0.0
                ax += a * x[i]
                mag += abs(a * x[i])
            lo, hi = lb[r], ub[r]
            if hi == hi and abs(hi) < math.inf:
                v = max(v, ax - hi)
                scale = max(scale, mag + abs(hi))
            if lo == lo and abs(lo) < math.inf:
                v = max(v, lo - ax)
                scale = max(scale, mag + abs(lo))
    for j, ns in enumerate(stmt.get("nonlinear") or []):
        vals = con_raw.get(j)
        if vals is None:
            return math.nan, scale, True
        lb, ub = nl_limits(ns)
        for ci, c in enumerate(vals):
            lo, hi = lb[ci], ub[ci]
            if c != c:
                if (lo == lo and lo > -math.inf) or (hi == hi and hi < math.inf):
                    has_nan = True
                continue
            if hi == hi and hi < math.inf:
                v = max(v, c - hi)
                if math.isfinite(c):
                    scale = max(scale, abs(c) + abs(hi))
            if lo == lo and lo > -math.inf:
                v = max(v, lo - c)
                if math.isfinite(c):
                    scale = max(scale, abs(c) + abs(lo))
    if has_nan:
        return math.nan, scale, True
    return max(v, 0.0), scale, False


def contradictory_limits(stmt):
    """True if some constraint component has lb > ub (the meaning of 'maximum
    violation' is then ambiguous) or limits closer than rounding but unequal."""
    for ls in stmt.get("linear") or []:
        lb, ub = _limits(ls, len(ls["A"]))
        for a, b in zip(lb, ub):
            if a == a and b == b and a > b:
                return True
    for ns in stmt.get("nonlinear") or []:
        lb, ub = nl_limits(ns)
        for a, b in zip(lb, ub):
            if a == a and b == b and a > b:
                return True
    return False


def clip_barrier(v):
    if v != v:
        return BARRIER
    return max(min(v, BARRIER), -BARRIER)


# ---------------------------------------------------------------------------
# Filter reference model (C03)
# ---------------------------------------------------------------------------
class FilterRef:
    """The documented retention and selection rules run on a plain list.

    Entries are (fun, maxcv, tag) in insertion order.  Only the parts of the
    rule that the statement pins down are modelled for histories with NaN/inf
    (see select_clauses); all-finite histories are modelled completely.
    """

    def __init__(self, size, tol):
        self.size = size
        self.tol = tol
        self.kept = []       # retained entries
        self.all = []        # every reply

    @staticmethod
    def _dominates(a, b):
        """a dominates b (both fully defined): no worse in both."""
        return a[0] <= b[0] and a[1] <= b[1]

    def add(self, f, v, tag):
        e = (f, v, tag)
        self.all.append(e)
        defined = f == f and v == v
        if defined:
            # enters iff no retained fully-defined reply is at least as good in both
            enters = all(not (k[0] == k[0] and k[1] == k[1]) or (f < k[0] or v < k[1]) for k in self.kept)
        else:
            enters = None  # not modelled
        if enters:
            self.kept = [k for k in self.kept
                         if (k[0] == k[0] and k[1] == k[1]) and not self._dominates(e, k)]
            self.kept.append(e)
            if len(self.kept) > self.size:
                self.kept.pop(0)
        return enters

    @staticmethod
    def select(entries, penalty, tol):
        """Full documented rule on fully defined finite-violation entries.
        Returns the (fun, maxcv) pair that must be selected."""
        feas = [e for e in entries if e[1] <= tol]
        if feas:
            fmin = min(e[0] for e in feas)
            c = [e for e in feas if e[0] <= fmin]
            vmin = min(e[1] for e in c)
            c = [e for e in c if e[1] <= vmin]
            return c[-1]
        merit = [(e[0] + penalty * e[1], e) for e in entries]
        mmin = min(m for m, _ in merit)
        c = [e for m, e in merit if m <= mmin]
        vmin = min(e[1] for e in c)
        c = [e for e in c if e[1] <= vmin]
        fmin = min(e[0] for e in c)
        c = [e for e in c if e[0] <= fmin]
        return c[-1]


def internal_slacks(stmt, con_raw):
    """The solver-side values of the nonlinear constraints for raw user replies, as documented:
    per constraint object (in list order) and among its non-equality components first `lb - c` for every finite
    lower limit, then `c - ub` for every finite upper limit (inequality slacks, feasible when <= 0);
    equality components (limits equal to rounding) give `c - midpoint`.  Values are barrier-clipped.
    Returns (cub, ceq) or None if a reply is missing."""
    from .scenario import arrays_tol
    objs = sorted(enumerate(stmt.get("nonlinear") or []),
                  key=lambda t: t[1].get("pos", 10 ** 6 + t[0]))
    cub, ceq = [], []
    for j, ns in objs:
        vals = con_raw.get(j)
        if vals is None:
            return None
        lb, ub = nl_limits(ns)
        tol = arrays_tol([v for v in lb], [v for v in ub])
        iseq = [abs(b - a) <= tol if (a == a and b == b) else False for a, b in zip(lb, ub)]
        for ci, c in enumerate(vals):
            if not iseq[ci] and lb[ci] > -math.inf:
                cub.append(clip_barrier(lb[ci] - c))
        for ci, c in enumerate(vals):
            if not iseq[ci] and ub[ci] < math.inf:
                cub.append(clip_barrier(c - ub[ci]))
        for ci, c in enumerate(vals):
            if iseq[ci]:
                ceq.append(clip_barrier(c - 0.5 * (ub[ci] + lb[ci])))
    return cub, ceq
