"""Seed derivation: one integer decides everything.

VERIF_SEED --splitmix64--> run seed --label--> independent streams
(scenario / faults / schedule), so that shrinking one dimension does not
reshuffle the others.  Nothing here reads a clock or os.urandom.
"""
import random

MASK = (1 << 64) - 1


def splitmix64(x):
    x = (x + 0x9E3779B97F4A7C15) & MASK
    z = x
    z = ((z ^ (z >> 30)) * 0xBF58476D1CE4E5B9) & MASK
    z = ((z ^ (z >> 27)) * 0x94D049BB133111EB) & MASK
    return z ^ (z >> 31)


def derive(seed, *labels):
    """Derive a 64-bit sub-seed from a seed and a sequence of labels."""
    h = splitmix64(int(seed) & MASK)
    for lab in labels:
        if isinstance(lab, int):
            data = lab.to_bytes(16, "little", signed=True)
        else:
            data = str(lab).encode()
        for i in range(0, len(data), 8):
            h = splitmix64(h ^ int.from_bytes(data[i:i + 8], "little"))
    return h


class Rng(random.Random):
    """random.Random with a few helpers; seeded from derive()."""

    def __init__(self, seed, *labels):
        super().__init__(derive(seed, *labels))

    def chance(self, p):
        return self.random() < p

    def pick(self, seq):
        return seq[self.randrange(len(seq))]

    def wpick(self, pairs):
        """pairs: [(weight, value), ...]"""
        tot = sum(w for w, _ in pairs)
        r = self.random() * tot
        for w, v in pairs:
            r -= w
            if r < 0:
                return v
        return pairs[-1][1]

    def loguniform(self, lo, hi):
        import math
        return math.exp(self.uniform(math.log(lo), math.log(hi)))

    def nice(self, lo, hi, q=8):
        """A float in [lo, hi] on a dyadic lattice (exact arithmetic friendly)."""
        k = self.randint(round(lo * q), round(hi * q))
        return k / q
