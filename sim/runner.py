"""Batch runner: shards cases over processes, aggregates coverage, triages
violations (known findings / minimise / confirm in a fresh process) and writes
the evidence file."""
import faulthandler
import hashlib
import json
import multiprocessing
import os
import signal
import subprocess
import sys
import time
import traceback
from collections import Counter
from concurrent.futures import ProcessPoolExecutor

VERIF = os.path.dirname(os.path.dirname(os.path.abspath(__file__)))
EVIDENCE_DIR = os.environ.get("VERIF_EVIDENCE_DIR", os.path.join(VERIF, "evidence"))
REPLAY_DIR = os.environ.get("VERIF_REPLAY_DIR", os.path.join(VERIF, "replays"))
KNOWN = os.path.join(VERIF, "known_findings.json")
CASE_TIMEOUT = float(os.environ.get("VERIF_CASE_TIMEOUT", "120"))


class CaseTimeout(BaseException):
    pass


def _alarm(signum, frame):
    raise CaseTimeout()


def _run_chunk(args):
    """Worker: run a chunk of case indices of one check."""
    check_name, seed, tier, idxs, deadline = args
    from . import checks
    spec = checks.CHECKS[check_name]
    faulthandler.enable()
    out = []
    signal.signal(signal.SIGALRM, _alarm)
    for idx in idxs:
        if time.time() > deadline:
            out.append({"idx": idx, "skipped": True})
            continue
        signal.setitimer(signal.ITIMER_REAL, spec.get("case_timeout", CASE_TIMEOUT))
        try:
            if spec.get("isolate"):
                out.append(_isolated(spec, seed, idx, tier))
            else:
                cr = spec["case"](seed, idx, tier)
                out.append(pack_case(idx, cr))
            signal.setitimer(signal.ITIMER_REAL, 0)
        except CaseTimeout:
            handler = spec.get("on_timeout")
            if handler is None:
                out.append({"idx": idx, "timeout": True})
            else:
                try:
                    signal.setitimer(signal.ITIMER_REAL, 20 * CASE_TIMEOUT)
                    out.append(pack_case(idx, handler(seed, idx, tier)))
                except CaseTimeout:
                    out.append({"idx": idx, "timeout": True})
                except Exception:
                    out.append({"idx": idx, "error": traceback.format_exc()[-4000:]})
        except Exception:
            signal.setitimer(signal.ITIMER_REAL, 0)
            out.append({"idx": idx, "error": traceback.format_exc()[-4000:]})
        finally:
            signal.setitimer(signal.ITIMER_REAL, 0)
    return out


def _isolated(spec, seed, idx, tier):
    """Run one case in a freshly forked child, so that every case starts from the same pristine process
    state (cobyqa imported, minimize never called) and state carried between calls is attributable."""
    import pickle
    r, w = os.pipe()
    pid = os.fork()
    if pid == 0:
        code = 0
        try:
            os.close(r)
            signal.setitimer(signal.ITIMER_REAL, 0)
            try:
                res = pack_case(idx, spec["case"](seed, idx, tier))
            except BaseException:
                res = {"idx": idx, "error": traceback.format_exc()[-4000:]}
            with os.fdopen(w, "wb") as f:
                pickle.dump(res, f)
        except BaseException:
            code = 1
        finally:
            os._exit(code)
    os.close(w)
    try:
        with os.fdopen(r, "rb") as f:
            data = f.read()
    except CaseTimeout:
        try:
            os.kill(pid, signal.SIGKILL)
        finally:
            os.waitpid(pid, 0)
        raise
    os.waitpid(pid, 0)
    if not data:
        return {"idx": idx, "error": "isolated child died without a result"}
    return pickle.loads(data)


def pack_case(idx, cr):
    return {
        "idx": idx, "worlds": cr.worlds, "evals": cr.evals, "events": cr.events,
        "stats": dict(cr.stats), "sigs": [repr(s) for s in cr.sigs], "fired": dict(cr.fired),
        "status": dict(cr.status), "kinds": dict(cr.kinds), "cut_points": cr.cut_points,
        "viols": [({"prop": v.prop, "clause": v.clause, "msg": v.msg, "key": v.key}, p) for v, p in cr.viols],
        "sample": cr.sample, "harness_errors": cr.harness_errors[:3],
        "digest": hashlib.sha256(repr((cr.worlds, cr.evals, cr.events, sorted(cr.stats.items()),
                                       sorted(cr.status.items()), cr.digests)).encode()).hexdigest(),
    }


def load_known():
    if not os.path.exists(KNOWN):
        return []
    with open(KNOWN) as f:
        return json.load(f)


def features(stmt):
    from .scenario import n_free_of, bounds_consistent
    f = set()
    if stmt is None:
        return f
    if stmt.get("nonlinear"):
        f.add("nonlinear")
        if any(ns.get("form") == "dict" for ns in stmt["nonlinear"]):
            f.add("dict_constraint")
    if stmt.get("linear"):
        f.add("linear")
    if stmt.get("obj") is None:
        f.add("no_objective")
    o = stmt.get("options") or {}
    if o.get("scale"):
        f.add("scale")
    b = stmt.get("bounds")
    if b is not None:
        if not bounds_consistent(b["lb"], b["ub"]):
            f.add("inconsistent_bounds")
        else:
            nf = n_free_of(stmt)
            if nf < stmt["n"]:
                f.add("fixed_variable")
            if nf == 0:
                f.add("all_fixed")
    if stmt.get("callback"):
        f.add("callback")
        if stmt["callback"].get("stop_at"):
            f.add("callback_stops")
    return f


def match_known(known, v, payload):
    """Narrow matching: property, clause, key (prefix) and required scenario features."""
    stmt = payload.get("stmt") if isinstance(payload, dict) else None
    feats = features(stmt) if stmt is not None else set()
    for k in known:
        if k.get("state") != "finding":
            continue
        if k["property"] != v["prop"] or k.get("clause", v["clause"]) != v["clause"]:
            continue
        if not str(v["key"]).startswith(k.get("key", "")):
            continue
        if not set(k.get("requires", [])) <= feats:
            continue
        if set(k.get("excludes", [])) & feats:
            continue
        return k
    return None


def _json_default(o):
    import numpy as np
    if isinstance(o, (np.floating,)):
        return float(o)
    if isinstance(o, (np.integer,)):
        return int(o)
    if isinstance(o, np.ndarray):
        return o.tolist()
    if isinstance(o, bytes):
        return o.hex()
    if isinstance(o, (set, tuple)):
        return list(o)
    return repr(o)


def dumps(o, **kw):
    return json.dumps(o, default=_json_default, **kw)


def confirm_in_fresh_process(path):
    """Replay a file in a fresh interpreter; True iff it fails the same way."""
    env = dict(os.environ)
    env["PYTHONHASHSEED"] = "0"
    p = subprocess.run([sys.executable, os.path.join(VERIF, "sim", "cli.py"), "--replay", path, "--quiet"],
                       capture_output=True, text=True, env=env, timeout=600)
    return p.returncode == 1, (p.stdout + p.stderr)[-2000:]


def run_check(check_name, tier, seed, workers=None, cases=None, quiet=False):
    from . import checks, shrink
    spec = checks.CHECKS[check_name]
    prop = spec["property"]
    t0 = time.time()
    ncases = cases if cases is not None else spec["cases"][tier]
    ncases = int(os.environ.get("VERIF_CASES", ncases))
    workers = workers or int(os.environ.get("VERIF_WORKERS", min(16, os.cpu_count() or 1)))
    budget = spec.get("budget_s", {"quick": 420, "thorough": 3000})[tier]
    deadline = t0 + budget
    chunk = max(1, min(32, ncases // (workers * 8) or 1))
    idxs = list(range(ncases))
    tasks = [(check_name, seed, tier, idxs[i:i + chunk], deadline) for i in range(0, ncases, chunk)]
    results = []
    ctx = multiprocessing.get_context("fork")
    if workers == 1:
        for t in tasks:
            results.extend(_run_chunk(t))
    else:
        with ProcessPoolExecutor(max_workers=workers, mp_context=ctx) as ex:
            for r in ex.map(_run_chunk, tasks):
                results.extend(r)
    agg = {"worlds": 0, "evals": 0, "events": 0, "cut_points": 0}
    stats, fired, status, kinds = Counter(), Counter(), Counter(), Counter()
    sigs = set()
    viols = []
    samples = []
    errors = []
    timeouts = []
    skipped = 0
    digests = {}
    for r in results:
        if r.get("skipped"):
            skipped += 1
            continue
        if r.get("timeout"):
            timeouts.append(r["idx"])
            continue
        if r.get("error"):
            errors.append((r["idx"], r["error"]))
            continue
        for k in agg:
            agg[k] += r[k]
        stats.update(r["stats"])
        fired.update(r["fired"])
        status.update(r["status"])
        kinds.update(r["kinds"])
        sigs.update(r["sigs"])
        digests[r["idx"]] = r["digest"]
        for v, p in r["viols"]:
            viols.append((r["idx"], v, p))
        if r["sample"] is not None and len(samples) < 3:
            samples.append(r["sample"])
        for he in r["harness_errors"]:
            errors.append((r["idx"], he))
    # ---- triage violations ------------------------------------------------
    known = load_known()
    own = [(i, v, p) for i, v, p in viols if v["prop"] == prop]
    by_sig = {}
    for i, v, p in own:
        by_sig.setdefault((v["prop"], v["clause"], v["key"]), []).append((i, v, p))
    known_hits = Counter()
    reported = []
    lines = []
    for sig in sorted(by_sig):
        group = by_sig[sig]
        unmatched = []
        for i, v, p in group:
            k = match_known(known, v, p)
            if k is not None:
                known_hits[(k["property"], k["what"])] += 1
            else:
                unmatched.append((i, v, p))
        if not unmatched:
            continue
        i, v, p = unmatched[0]
        payload = dict(p)
        payload["property"] = prop
        payload["expect"] = {"prop": v["prop"], "clause": v["clause"], "key": v["key"]}
        try:
            small = shrink.minimise(payload)
        except Exception:
            small = payload
            errors.append((i, "shrink: " + traceback.format_exc()[-1500:]))
        small["seed"] = seed
        small["case"] = i
        small["message"] = v["msg"]
        small["check"] = check_name
        os.makedirs(REPLAY_DIR, exist_ok=True)
        name = "%s-%s-%s-%d.json" % (prop, v["clause"], hashlib.sha1(str(v["key"]).encode()).hexdigest()[:8], seed)
        path = os.path.join(REPLAY_DIR, name)
        with open(path, "w") as f:
            f.write(dumps(small, indent=1))
        ok, log = confirm_in_fresh_process(path)
        if ok:
            reported.append({"sig": list(sig), "count": len(unmatched), "replay": path, "message": v["msg"]})
            lines.append("VIOLATION property=%s replay=%s" % (prop, path))
            if not quiet:
                print("  %s.%s [%s] x%d: %s" % (v["prop"], v["clause"], v["key"], len(unmatched), v["msg"]))
        else:
            errors.append((i, "violation did not reproduce in a fresh process: %s %s\n%s" % (sig, path, log)))
    for (pid, what), cnt in sorted(known_hits.items()):
        print("KNOWN-FINDING: property=%s %s (x%d)" % (pid, what, cnt))
    # ---- determinism sample ----------------------------------------------------
    det = None
    if spec.get("determinism_sample", True) and not os.environ.get("VERIF_NO_DETSAMPLE"):
        det = determinism_sample(check_name, seed, tier, digests, n=spec.get("det_n", 6))
        if det["mismatch"]:
            errors.append((-1, "determinism self-test failed: %r" % (det["mismatch"],)))
    wall = time.time() - t0
    # ---- evidence ----------------------------------------------------------------
    cov = {
        "evaluations": agg["worlds"],
        "distinct_nontrivial": len(sigs),
        "rule": spec["rule"],
        "samples": samples or [{"note": "no sample recorded"}],
        "cases_planned": ncases, "cases_run": len(results) - skipped - len(timeouts) - len([1 for r in results if r.get("error")]),
        "cases_skipped_deadline": skipped, "case_timeouts": timeouts[:10],
        "runs_per_hour": int(agg["worlds"] / max(wall, 1e-9) * 3600),
        "workers": workers,
        "events_simulated": agg["events"],
        "evaluations_simulated": agg["evals"],
        "simulated_time_note": "cobyqa reads no clock; simulated time is the logical event counter (events_simulated)",
        "cut_points_enumerated": agg["cut_points"],
        "faults_fired": dict(fired),
        "exit_status_histogram": dict(status),
        "step_kinds_reached": dict(kinds),
        "clause_counters": dict(stats),
        "known_findings_matched": [{"property": p, "what": w, "count": c} for (p, w), c in sorted(known_hits.items())],
        "violations_reported": reported,
        "determinism_sample": det,
        "probe_missing": probe_missing(),
        "real_components": ["cobyqa.main", "cobyqa.problem", "cobyqa.models", "cobyqa.framework",
                            "cobyqa.subsolvers", "cobyqa.settings", "cobyqa.utils", "numpy", "scipy"],
        "stub_components": spec.get("stubs", ["objective function", "constraint functions", "callback",
                                              "sys.stdout (StringIO)", "cobyqa.models.eigh wrapped for fault injection"]),
        "harness_errors": [e[1][-1500:] for e in errors[:5]],
        "cobyqa_src": os.environ.get("COBYQA_SRC", "/repo"),
    }
    inter = [x for x in sigs if x.startswith("('threads'")]
    if inter:
        cov["distinct_interleavings"] = len(inter)
        cov["interleaving_measure"] = ("distinct (number of client threads, strategy, number of baton switches, tuple of "
                                       "the first 40 distinct code locations at which a switch happened)")
    for w in spec.get("reach", []):
        if not stats.get(w) and not kinds.get(w) and not fired.get(w):
            cov.setdefault("reach_warnings", []).append("counter %r stayed at zero" % w)
    ev = {
        "property_id": prop, "tier": tier, "seed": int(seed), "level": spec["level"],
        "coverage": cov, "assumptions": spec.get("assumptions", []), "wall_s": round(wall, 2),
        "violations": len(reported),
    }
    os.makedirs(EVIDENCE_DIR, exist_ok=True)
    with open(os.path.join(EVIDENCE_DIR, "%s.json" % prop), "w") as f:
        f.write(dumps(ev, indent=1))
    for ln in lines:
        print(ln)
    if not quiet:
        print("[%s %s seed=%d] worlds=%d evals=%d cases=%d distinct=%d cuts=%d wall=%.1fs known=%d viol=%d errors=%d timeouts=%d"
              % (check_name, tier, seed, agg["worlds"], agg["evals"], ncases, len(sigs), agg["cut_points"], wall,
                 sum(known_hits.values()), len(reported), len(errors), len(timeouts)))
    if lines:
        return 1
    if errors or (timeouts and not spec.get("timeouts_ok")):
        for i, e in errors[:5]:
            print("HARNESS-ERROR case=%s: %s" % (i, e), file=sys.stderr)
        if timeouts:
            print("HARNESS-ERROR: %d case(s) hit the wall-clock watchdog: %r" % (len(timeouts), timeouts[:10]), file=sys.stderr)
        return 2
    return 0


def probe_missing():
    try:
        from . import probes
        return list(probes.MISSING)
    except Exception:
        return []


def determinism_sample(check_name, seed, tier, digests, n=6):
    """Re-run a few of this run's own cases in a fresh interpreter under another
    PYTHONHASHSEED and compare the case digests."""
    idxs = sorted(digests)[:n]
    if not idxs:
        return {"sample": 0, "mismatch": []}
    env = dict(os.environ)
    env["PYTHONHASHSEED"] = "12345"
    env["VERIF_NO_DETSAMPLE"] = "1"
    cmd = [sys.executable, os.path.join(VERIF, "sim", "cli.py"), check_name, "--tier", tier, "--seed", str(seed),
           "--digest-cases", ",".join(map(str, idxs))]
    try:
        p = subprocess.run(cmd, capture_output=True, text=True, env=env, timeout=900)
        got = json.loads(p.stdout.strip().splitlines()[-1])
    except Exception as e:
        return {"sample": len(idxs), "mismatch": ["subprocess failed: %s" % e]}
    mism = [i for i in idxs if got.get(str(i)) != digests[i]]
    return {"sample": len(idxs), "mismatch": mism, "fresh_interpreter_hashseed": 12345}
