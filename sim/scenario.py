"""Seeded generation of materialised statements and fault plans.

A statement is plain JSON data (lists, dicts, floats, ints, strings, None) that
`build.Call` turns into a real minimize() call; it is what a replay file
contains.  Only *valid* calls are generated (finite x0, option values inside
their documented domains), so that any exception escaping minimize is a
violation of C08 and not an artefact of the generator.
"""
import math

import numpy as np

EPS = float(np.finfo(float).eps)

DEFAULT_PROFILE = {
    "n_weights": [(2, 1), (4, 2), (3, 3), (1.5, 4), (1, 5)],
    "p_bounds": 0.7,
    "p_linear": 0.35,
    "p_nonlinear": 0.45,
    "p_no_obj": 0.08,
    "p_callback": 0.5,
    "p_scale": 0.3,
    "p_fixed": 0.25,          # probability that a bounded statement has fixed variables
    "p_all_fixed": 0.03,
    "p_inconsistent": 0.03,
    "p_nan_bound": 0.03,
    "p_dict": 0.35,
    "p_noise": 0.12,
    "p_disp": 0.1,
    "p_constants": 0.25,
    "p_history": 0.3,
    "p_filter": 0.25,
    "p_npt": 0.5,
    "p_target": 0.1,
    "p_wide_radii": 0.1,
    "p_mutating_functions": 0.08,
    "p_no_options": 0.04,
    "p_soc_bias": 0.0,
    "p_strict_dims": 0.0,
    "p_zero_tol": 0.0,
    "force_n": None,
    "p_narrow_box": 0.0,
    "maxfev_hi": 90,
    "obj_fams": [(4, "quad"), (1.5, "cubic"), (1.5, "rosen"), (1.5, "abs"), (1, "maxaff"), (1, "linear"), (0.5, "const")],
    "con_fams": [(3, "ball"), (2, "ellipsoid"), (2, "affine"), (1, "product"), (1, "sine"), (0.6, "step")],
}


def profile(**over):
    p = dict(DEFAULT_PROFILE)
    p.update(over)
    return p


def arrays_tol(*arrays):
    size = max(len(a) for a in arrays)
    weight = 1.0
    for a in arrays:
        for v in a:
            if math.isfinite(v):
                weight = max(weight, abs(v))
    return 10.0 * EPS * max(size, 1.0) * weight


def fixed_mask(lb, ub):
    """cobyqa's documented rule for 'fixed by the bounds' (NaN = no bound)."""
    lb = [-math.inf if v != v else v for v in lb]
    ub = [math.inf if v != v else v for v in ub]
    tol = arrays_tol(lb, ub)
    return [(a <= b) and (abs(a - b) < tol) for a, b in zip(lb, ub)]


def bounds_consistent(lb, ub):
    for a, b in zip(lb, ub):
        a = -math.inf if a != a else a
        b = math.inf if b != b else b
        if not (a <= b) or a == math.inf or b == -math.inf:
            return False
    return True


# ---------------------------------------------------------------------------
def gen_family(rng, fam, n, scale=1.0):
    if fam == "quad":
        return {"fam": "quad", "c": [rng.nice(-2, 2) for _ in range(n)],
                "d": [rng.pick([0.25, 0.5, 1.0, 1.0, 2.0, 4.0]) for _ in range(n)],
                "e": rng.pick([0.0, 0.0, 0.25, -0.25, 0.5])}
    if fam == "cubic":
        return {"fam": "cubic", "c": [rng.nice(-1, 1) for _ in range(n)],
                "d": [rng.pick([-1.0, -0.5, 0.5, 1.0, 2.0]) for _ in range(n)],
                "g": rng.pick([0.125, 0.25, -0.25])}
    if fam == "rosen":
        return {"fam": "rosen", "a": rng.pick([1.0, 5.0, 100.0])}
    if fam == "abs":
        return {"fam": "abs", "c": [rng.nice(-2, 2) for _ in range(n)]}
    if fam == "maxaff":
        k = rng.randint(2, 4)
        return {"fam": "maxaff", "a": [[rng.nice(-2, 2) for _ in range(n)] for _ in range(k)],
                "b": [rng.nice(-1, 1) for _ in range(k)]}
    if fam == "linear":
        return {"fam": "linear", "g": [rng.nice(-2, 2) for _ in range(n)], "k": rng.nice(-1, 1)}
    if fam == "const":
        return {"fam": "const", "k": rng.pick([0.0, 1.0, -3.5])}
    if fam == "step":
        return {"fam": "step", "g": [rng.pick([-2.0, -1.0, 1.0, 1.0, 2.0, 3.0]) for _ in range(n)], "k": float(rng.randint(-2, 2))}
    if fam == "ball":
        return {"fam": "ball", "c": [rng.nice(-1, 1) for _ in range(n)], "r": rng.pick([0.5, 1.0, 1.5, 2.0])}
    if fam == "ellipsoid":
        return {"fam": "ellipsoid", "c": [rng.nice(-1, 1) for _ in range(n)],
                "d": [rng.pick([0.5, 1.0, 2.0]) for _ in range(n)], "r": rng.pick([1.0, 1.5, 2.0])}
    if fam == "affine":
        return {"fam": "linear", "g": [rng.nice(-2, 2) for _ in range(n)], "k": rng.nice(-2, 2)}
    if fam == "product":
        return {"fam": "product", "i": rng.randrange(n), "j": rng.randrange(n), "p": rng.nice(-1, 1)}
    if fam == "sine":
        return {"fam": "sine", "i": rng.randrange(n), "j": rng.randrange(n), "w": rng.pick([1.0, 2.0, 3.0]),
                "p": rng.nice(-1, 1)}
    raise ValueError(fam)


def gen_bounds(rng, n, prof, need_finite=False):
    lb, ub = [], []
    kinds = []
    all_fixed = rng.chance(prof["p_all_fixed"]) and not need_finite
    want_fixed = rng.chance(prof["p_fixed"])
    for i in range(n):
        if all_fixed:
            kind = "fixed"
        elif need_finite:
            kind = rng.wpick([(6, "two"), (1, "narrow"), (1.5 if want_fixed else 0, "fixed"), (0.5 if want_fixed else 0, "near")])
        else:
            kind = rng.wpick([(2, "free"), (2, "lower"), (2, "upper"), (5, "two"), (1.5, "narrow"), (0.35, "bigfinite"),
                              (3 if want_fixed else 0, "fixed"), (1 if want_fixed else 0, "near")])
        c = rng.nice(-2, 2)
        if kind == "free":
            a, b = -math.inf, math.inf
        elif kind == "lower":
            a, b = c, math.inf
        elif kind == "upper":
            a, b = -math.inf, c
        elif kind == "two":
            a, b = c, c + rng.pick([0.5, 1.0, 2.0, 3.0, 5.0])
        elif kind == "narrow":
            a, b = c, c + rng.pick([1e-3, 0.01, 0.05, 0.125])
        elif kind == "bigfinite":
            # a finite "no bound" sentinel next to an ordinary bound
            a, b = (c, rng.pick([1e10, 1e21])) if rng.chance(0.5) else (-rng.pick([1e10, 1e21]), c)
        elif kind == "fixed":
            a, b = c, c
        else:  # near-fixed: a few ulp apart
            a = c if c != 0.0 else 1.0
            b = a
            for _ in range(rng.randint(1, 3)):
                b = math.nextafter(b, math.inf)
        lb.append(a)
        ub.append(b)
        kinds.append(kind)
    if n > 1 and all(k in ("fixed", "near") for k in kinds) and not all_fixed:
        # keep at least one free variable unless all-fixed was asked for
        i = rng.randrange(n)
        ub[i] = lb[i] + 1.0
        kinds[i] = "two"
    if rng.chance(prof["p_inconsistent"]) and not need_finite:
        i = rng.randrange(n)
        lb[i], ub[i] = 1.0, rng.pick([0.0, 0.5, -math.inf]) if rng.chance(0.8) else 0.999
        kinds[i] = "inconsistent"
    if rng.chance(prof["p_nan_bound"]) and not need_finite:
        i = rng.randrange(n)
        if rng.chance(0.5):
            lb[i] = math.nan
        else:
            ub[i] = math.nan
        kinds[i] = "nan"
    form = rng.wpick([(3, "Bounds"), (2, "array"), (0.5, "list")])
    return {"form": form, "lb": lb, "ub": ub, "kinds": kinds}


def gen_x0(rng, n, b):
    where = rng.wpick([(4, "inside"), (2, "face"), (1, "vertex"), (2, "outside"), (1, "far")])
    x0 = []
    for i in range(n):
        a = -math.inf if b is None else b["lb"][i]
        c = math.inf if b is None else b["ub"][i]
        a = -math.inf if a != a else a
        c = math.inf if c != c else c
        if not (a <= c):
            a, c = min(a, c), max(a, c)
        if math.isfinite(a) and math.isfinite(c):
            lo, hi = a, c
        elif math.isfinite(a):
            lo, hi = a, a + 3.0
        elif math.isfinite(c):
            lo, hi = c - 3.0, c
        else:
            lo, hi = -2.0, 2.0
        if where == "inside":
            v = lo + (hi - lo) * rng.pick([0.25, 0.5, 0.5, 0.75, 0.375])
        elif where == "face":
            v = rng.pick([lo, hi]) if i == 0 or rng.chance(0.3) else lo + (hi - lo) * 0.5
        elif where == "vertex":
            v = rng.pick([lo, hi])
        elif where == "outside":
            v = rng.pick([lo - rng.pick([0.25, 1.0, 3.0]), hi + rng.pick([0.25, 1.0, 3.0]), 0.5 * (lo + hi)])
        else:
            v = rng.pick([-50.0, 50.0]) * rng.pick([1.0, 0.5])
        if not math.isfinite(v):
            v = 0.0
        x0.append(float(v))
    return x0, where


def gen_linear(rng, n):
    m = rng.randint(1, 3)
    A = [[rng.nice(-2, 2) for _ in range(n)] for _ in range(m)]
    if rng.chance(0.08):
        A[rng.randrange(m)] = [0.0] * n
    if m > 1 and rng.chance(0.08):
        A[1] = list(A[0])
    lb, ub = [], []
    for _ in range(m):
        pat = rng.wpick([(4, "ub"), (3, "lb"), (3, "two"), (2, "eq"), (0.5, "none"), (0.3, "contra"), (0.2, "nan")])
        c = rng.nice(-2, 2)
        if pat == "ub":
            a, b = -math.inf, c
        elif pat == "lb":
            a, b = c, math.inf
        elif pat == "two":
            a, b = c, c + rng.pick([0.5, 1.0, 2.0])
        elif pat == "eq":
            a, b = c, c
        elif pat == "none":
            a, b = -math.inf, math.inf
        elif pat == "contra":
            a, b = c + 1.0, c
        else:
            a, b = (math.nan, c) if rng.chance(0.5) else (c, math.nan)
        lb.append(a)
        ub.append(b)
    spec = {"A": A, "lb": lb, "ub": ub}
    if rng.chance(0.15) and lb[0] == lb[0] and ub[0] == ub[0]:
        # scalar-broadcast limits
        spec["lb"], spec["ub"] = lb[0], ub[0]
    return spec


def gen_nonlinear(rng, n, prof, twin_of=None):
    form = "dict" if rng.chance(prof["p_dict"]) else "nlc"
    m = rng.wpick([(5, 1), (2, 2), (1, 3)])
    if twin_of is not None:
        comps = [dict(twin_of)]
        m = 1
    else:
        comps = [gen_family(rng, rng.wpick(prof["con_fams"]), n) for _ in range(m)]
    for cs in comps:
        if rng.chance(prof["p_noise"] * 0.5):
            cs["noise"] = rng.pick([1e-9, 1e-6, 1e-3])
            cs["salt"] = rng.randrange(1000)
    spec = {"form": form, "comps": comps}
    if form == "dict":
        spec["type"] = rng.wpick([(3, "ineq"), (1, "eq")])
        # dict 'ineq' means fun(x) >= 0: flip the sign of "<= 0"-shaped families
        for cs in comps:
            if spec["type"] == "ineq":
                cs["sign"] = -1.0
        spec["args"] = [rng.nice(-0.5, 0.5)] if rng.chance(0.45) else None
        spec["ret"] = rng.pick(["ndarray", "list", "tuple"] + (["scalar", "scalar"] if m == 1 else []))
        return spec
    lb, ub = [], []
    for _ in range(m):
        pat = rng.wpick([(5, "ub"), (2, "lb"), (2, "two"), (2, "eq"), (0.3, "none")])
        c = rng.pick([0.0, 0.0, 0.5, -0.5, 1.0])
        if pat == "ub":
            a, b = -math.inf, c
        elif pat == "lb":
            a, b = c - 1.0, math.inf
        elif pat == "two":
            a, b = c - rng.pick([0.5, 1.0, 2.0, 2.0 ** -20]), c
        elif pat == "eq":
            a, b = c, c
        else:
            a, b = -math.inf, math.inf
        lb.append(a)
        ub.append(b)
    spec["lb"], spec["ub"] = lb, ub
    if rng.chance(0.2):
        spec["callable"] = rng.pick(["method", "instance", "partial"])
    if rng.chance(0.12):
        spec["jac"] = True
    if rng.chance(0.15):
        spec["lb"], spec["ub"] = lb[0], ub[0]
    spec["ret"] = rng.pick(["ndarray", "ndarray_reused", "list", "tuple"] + (["scalar"] if m == 1 else []))
    if all(cs["fam"] == "step" for cs in comps) and not any(cs.get("noise") for cs in comps):
        spec["ret"] = rng.pick(["intlist", "intarray", "intscalar" if m == 1 else "intlist", "bool", "ndarray"])
    return spec


CONSTANT_DOMAINS = {
    # name: (lo, hi) open interval from the documentation / validation
    "decrease_radius_factor": (0.05, 0.95),
    "increase_radius_threshold": (1.05, 4.0),
    "decrease_resolution_factor": (0.01, 0.9),
    "very_low_ratio": (0.001, 0.5),
    "short_step_threshold": (0.05, 0.95),
    "low_radius_factor": (0.01, 0.9),
    "byrd_omojokun_factor": (0.1, 0.95),
    "threshold_ratio_constraints": (1.1, 5.0),
    "large_shift_factor": (0.0, 50.0),
    "large_gradient_factor": (1.1, 50.0),
    "resolution_factor": (1.1, 5.0),
}


def gen_constants(rng):
    c = {}
    names = sorted(CONSTANT_DOMAINS)
    for name in rng.sample(names, rng.randint(1, 4)):
        lo, hi = CONSTANT_DOMAINS[name]
        c[name] = round(rng.uniform(lo, hi), 4)
    if rng.chance(0.3):
        lo = round(rng.uniform(0.02, 0.5), 3)
        c["low_ratio"] = lo
        if rng.chance(0.7):
            c["high_ratio"] = round(rng.uniform(lo, 0.95), 3)
    if rng.chance(0.2):
        f = round(rng.uniform(1.1, 3.0), 3)
        c["increase_radius_factor"] = f
        if rng.chance(0.6):
            c["decrease_radius_threshold"] = round(rng.uniform(1.01, f - 0.005), 4) if f > 1.02 else None
            if c["decrease_radius_threshold"] is None or not (1.0 < c["decrease_radius_threshold"] < f):
                del c["decrease_radius_threshold"]
    if rng.chance(0.2):
        L = round(rng.uniform(2.0, 1000.0), 2)
        c["large_resolution_threshold"] = L
        if rng.chance(0.6):
            c["moderate_resolution_threshold"] = round(rng.uniform(1.1, L), 2)
    if rng.chance(0.15):
        t = round(rng.uniform(1.0, 3.0), 3)
        c["penalty_increase_threshold"] = t
        if rng.chance(0.6):
            c["penalty_increase_factor"] = round(rng.uniform(max(t, 1.01), 5.0), 3)
    if rng.chance(0.3):
        c["improve_tcg"] = False
    return c


def n_free_of(stmt):
    b = stmt.get("bounds")
    n = stmt["n"]
    if b is None:
        return n
    if not bounds_consistent(b["lb"], b["ub"]):
        fm = fixed_mask(b["lb"], b["ub"])
        return n - sum(fm)
    return n - sum(fixed_mask(b["lb"], b["ub"]))


def gen_options(rng, stmt, prof):
    n_free = max(n_free_of(stmt), 0)
    o = {}
    b = stmt.get("bounds")
    has_near = b is not None and any(k == "near" for k in b.get("kinds", []))
    if rng.chance(prof["p_wide_radii"]):
        ri = rng.loguniform(1e-12, 1e6)
        rf = ri * rng.pick([1.0, 1e-1, 1e-3, 1e-6]) if rng.chance(0.85) else 0.0
    else:
        ri = rng.pick([0.1, 0.25, 0.5, 1.0, 1.0, 2.0])
        rf = rng.pick([1e-1, 1e-2, 1e-2, 1e-3, 1e-4, 1e-6])
        rf = min(rf, ri)
    mode = rng.wpick([(5, "both"), (1, "init"), (1, "final"), (1, "none")])
    if mode in ("both", "init"):
        o["radius_init"] = ri
    if mode in ("both", "final"):
        o["radius_final"] = rf if mode == "both" else min(rf, 1.0)
    npt = None
    if n_free >= 1 and rng.chance(prof["p_npt"]) and not has_near:
        lo, hi = n_free + 1, (n_free + 1) * (n_free + 2) // 2
        npt = rng.pick([lo, hi, 2 * n_free + 1, rng.randint(lo, hi)])
        o["nb_points"] = npt
    npt_eff = npt if npt is not None else 2 * n_free + 1
    hi = prof["maxfev_hi"]
    o["maxfev"] = rng.wpick([(6, rng.randint(npt_eff + 1, max(npt_eff + 2, hi))),
                             (1, rng.randint(1, max(1, npt_eff))),
                             (1, npt_eff), (1, npt_eff + 1)])
    if rng.chance(0.2):
        o["maxiter"] = rng.randint(1, 60)
    if rng.chance(prof["p_scale"]):
        o["scale"] = True
    if rng.chance(prof["p_filter"]):
        o["filter_size"] = rng.pick([1, 2, 3, 5])
    if rng.chance(prof["p_history"]):
        o["store_history"] = True
        if rng.chance(0.6):
            o["history_size"] = rng.pick([1, 2, 3, 5, 10, 1000])
    if rng.chance(prof["p_disp"]):
        o["disp"] = True
    if rng.chance(0.2):
        o["feasibility_tol"] = rng.pick([0.0, 1e-12, 1e-8, 1e-4, 1e-2])
    if rng.chance(prof["p_target"]):
        o["target"] = rng.nice(-3, 6)
    if rng.chance(prof.get("p_zero_tol", 0.0)):
        # the edge of the domain of feasibility_tol, on a run long enough to come within 1e-8 of a boundary
        o["feasibility_tol"] = 0.0
        o["radius_final"] = min(o.get("radius_final", 1e-6), 1e-6)
        o["maxfev"] = max(o.get("maxfev", 0), 150)
        o.pop("maxiter", None)
    return o


def gen_statement(rng, prof=None):
    prof = prof or DEFAULT_PROFILE
    n = rng.wpick(prof["n_weights"])
    if prof.get("force_n"):
        n = prof["force_n"]
    stmt = {"n": n}
    want_scale = rng.chance(prof["p_scale"])
    b = None
    if rng.chance(prof["p_bounds"]) or want_scale:
        b = gen_bounds(rng, n, prof, need_finite=want_scale)
        if rng.chance(prof.get("p_narrow_box", 0.0)):
            i = rng.randrange(n)
            if b["kinds"][i] in ("two", "free", "lower", "upper"):
                c0 = rng.nice(-2, 2)
                b["lb"][i], b["ub"][i] = c0, c0 + rng.pick([0.25, 0.5, 1.0])
                b["kinds"][i] = "two"
    stmt["bounds"] = b
    x0, where = gen_x0(rng, n, b)
    stmt["x0"] = x0
    stmt["x0_where"] = where
    stmt["x0_form"] = rng.pick(["list", "ndarray", "tuple"])
    # objective
    if rng.chance(prof["p_no_obj"]):
        stmt["obj"] = None
    else:
        fam = rng.wpick(prof["obj_fams"])
        obj = gen_family(rng, fam, n)
        if rng.chance(prof["p_noise"]):
            obj["noise"] = rng.pick([1e-12, 1e-8, 1e-5, 1e-2])
            obj["salt"] = rng.randrange(1000)
        obj["ret"] = rng.wpick([(4, "float"), (2, "np64"), (1, "arr0"), (1, "arr1"), (1, "int"), (0.8, "arr1_reused"),
                                (0.4, "arr0_reused")])
        obj["args"] = [rng.nice(-1, 1)] if rng.chance(0.2) else None
        if rng.chance(prof["p_mutating_functions"]):
            obj["mutates"] = True
        stmt["obj"] = obj
    # constraints
    lin = []
    if rng.chance(prof["p_linear"]):
        for _ in range(rng.wpick([(4, 1), (1, 2)])):
            lin.append(gen_linear(rng, n))
    stmt["linear"] = lin
    nl = []
    if rng.chance(prof["p_nonlinear"]) or stmt["obj"] is None:
        for _ in range(rng.wpick([(5, 1), (2, 2), (1, 3)])):
            nl.append(gen_nonlinear(rng, n, prof))
    for ns in nl:
        if rng.chance(prof["p_mutating_functions"]):
            ns["mutates"] = True
    stmt["nonlinear"] = nl
    if rng.chance(prof.get("p_soc_bias", 0.0)) and stmt["obj"] is not None:
        # second-order-correction steps need strongly curved constraints, an infeasible start and a large radius
        fam = rng.pick(["ball", "product", "sine", "ellipsoid"])
        cs = gen_family(rng, fam, n)
        if fam in ("ball", "ellipsoid"):
            cs["r"] = rng.pick([0.5, 1.0])
        eq = rng.chance(0.6)
        nl.append({"form": "nlc", "comps": [cs], "lb": [0.0 if eq else -math.inf], "ub": [0.0], "ret": "ndarray"})
        stmt["nonlinear"] = nl
        stmt["x0"] = [v + rng.pick([-3.0, -2.0, 2.0, 3.0]) for v in stmt["x0"]] if b is None else stmt["x0"]
        stmt["_soc_bias"] = True
    if len(lin) + len(nl) > 1 and rng.chance(0.4):
        # interleave linear and nonlinear objects
        order = list(range(len(lin) + len(nl)))
        rng.shuffle(order)
        for k, s in enumerate(lin + nl):
            s["pos"] = order[k]
    stmt["constraints_form"] = rng.pick(["list", "list", "tuple", "single"])
    # callback
    if rng.chance(prof["p_callback"]):
        stmt["callback"] = {"style": rng.pick(["pos", "kw", "obj", "objkw", "partial", "partialkw", "lambda", "posdefault",
                                               "objfalsy"]),
                            "mutate": rng.chance(0.25), "stop_at": None}
    else:
        stmt["callback"] = None
    stmt["options"] = gen_options(rng, stmt, prof)
    if stmt.pop("_soc_bias", False):
        stmt["options"]["radius_init"] = rng.pick([1.0, 2.0, 5.0])
        stmt["options"]["radius_final"] = min(stmt["options"].get("radius_final", 1e-3), 1e-2)
        stmt["options"]["maxfev"] = max(stmt["options"].get("maxfev", 60), 60)
    if want_scale:
        stmt["options"]["scale"] = True
    if rng.chance(0.1):
        stmt["options"] = stmt["options"] or None
    if rng.chance(prof["p_no_options"]):
        # a plain default call: options=None (or an empty dict)
        stmt["options"] = None if rng.chance(0.7) else {}
    stmt["constants"] = gen_constants(rng) if rng.chance(prof["p_constants"]) else {}
    if stmt.get("options") and stmt["options"].get("scale") and b is not None and "bigfinite" in b.get("kinds", []):
        # scaling a variable by 5e20 leaves no digits for unit-sized linear residuals (rounding 1e5): not generated
        del stmt["options"]["scale"]
    if stmt.get("options") and rng.chance(prof.get("p_options_numpy", 0.08)):
        # option values as numpy scalars or zero-dimensional arrays (valid numbers; the arrays are the user's)
        stmt["options_numpy"] = rng.pick(["scalar", "array0"])
    if rng.chance(prof.get("p_strict_dims", 0.0)):
        stmt["strict_dims"] = True
    return stmt


# ---------------------------------------------------------------------------
REPLY_KINDS = [(4, "nan"), (2, "pinf"), (1.5, "ninf"), (1, "huge"), (0.7, "nhuge"), (1, "noise")]


def gen_targets(stmt):
    t = []
    if stmt.get("obj") is not None:
        t.append("obj")
    for j, ns in enumerate(stmt.get("nonlinear") or []):
        for ci in range(len(ns["comps"])):
            t.append(["con", j, ci])
    return t


def gen_fault(rng, stmt, n_evals, point_keyed_only=False):
    targets = gen_targets(stmt)
    if not targets:
        return None
    n = stmt["n"]
    kind = rng.wpick(REPLY_KINDS)
    target = rng.pick(targets)
    if stmt.get("obj") is not None and rng.chance(0.5):
        target = "obj"
    N = max(1, n_evals)
    wk = rng.wpick([(5, "at"), (1.5, "from"), (1.5, "half"), (1, "ball")])
    if point_keyed_only:
        # replies must stay pure functions of the user-space point (paired worlds: scipy's one-entry cache
        # lets different numbers of calls through in the two statements)
        wk = rng.wpick([(3, "half"), (2, "ball")])
    if wk == "at":
        k = rng.wpick([(2, 1), (1, min(N, 2)), (6, rng.randint(1, N))])
        when = {"at": k}
    elif wk == "from":
        when = {"from": rng.randint(1, N)}
    elif wk == "half":
        a = [rng.nice(-1, 1) for _ in range(n)]
        if not any(a):
            a[0] = 1.0
        when = {"half": {"a": a, "b": rng.nice(-1, 2)}}
    else:
        when = {"ball": {"c": [rng.nice(-2, 2) for _ in range(n)], "r": rng.pick([0.25, 0.5, 1.0])}}
    f = {"kind": kind, "target": target, "when": when}
    if kind == "noise":
        f["amp"] = rng.pick([1e-12, 1e-9, 1e-6])
    return f


def gen_fault_plan(rng, stmt, n_evals, linalg_calls=0, level=None, allow_linalg=True, point_keyed_only=False):
    """0 faults (25 %), 1 (35 %), 2-3 (30 %), heavy (10 %)."""
    if level is None:
        level = rng.wpick([(25, 0), (35, 1), (30, 2), (10, 3)])
    if level == 0:
        cnt = 0
    elif level == 1:
        cnt = 1
    elif level == 2:
        cnt = rng.randint(2, 3)
    else:
        cnt = rng.randint(4, 8)
    plan = []
    for _ in range(cnt):
        if allow_linalg and linalg_calls > 0 and rng.chance(0.15):
            plan.append({"kind": "linalg", "fn": "eigh", "at": rng.randint(1, linalg_calls)})
            continue
        f = gen_fault(rng, stmt, n_evals, point_keyed_only=point_keyed_only)
        if f is not None:
            plan.append(f)
    if rng.chance(0.08):
        plan.append({"kind": "cache_off"})
    return plan


def poison_knob(rng):
    return {"kind": "poison_empty", "pattern": rng.randrange(5)}
