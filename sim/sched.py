"""Seeded baton-passing scheduler for threaded worlds.

Each client runs the real minimize() in a real thread, but a thread only runs
while it holds the baton; everyone else is parked on its own semaphore.
Pre-emption points are (a) every *line event* of code whose file is under the
cobyqa package (sys.settrace installed inside each client thread) and (b) every
peer call / return.  Exactly one thread is ever runnable, so the interleaving
is the schedule and nothing else.  A schedule is a list of segments
[client, n_steps]; it is replayed by counting steps.
"""
import sys
import threading

from .world import COBYQA_DIR

BIG = 10 ** 12


class SchedError(Exception):
    pass


class Sched:
    def __init__(self, n, segments, record_locations=False, watch=None):
        self.n = n
        self.sem = [threading.Semaphore(0) for _ in range(n)]
        self.main = threading.Semaphore(0)
        self.segments = [list(s) for s in segments]
        self.seg_i = -1
        self.left = 0
        self.cur = None
        self.done = [False] * n
        self.count = [0] * n
        self.executed = []          # [client, steps] actually run
        self.run_len = 0
        self.switches = 0
        self.switch_locs = []
        self.record_locations = record_locations
        self.locs = [[] for _ in range(n)]      # per client: location id per step
        self.loc_ids = {}
        self.watch = watch          # optional callable(client, loc) -> None, for write-set discovery
        self.error = None

    # -- choosing who runs -------------------------------------------------------
    def _advance(self):
        """Move to the next segment whose client is still running; None when all are done."""
        while True:
            self.seg_i += 1
            if self.seg_i < len(self.segments):
                c, k = self.segments[self.seg_i]
                if 0 <= c < self.n and not self.done[c] and k > 0:
                    self.left = k
                    return c
            else:
                for c in range(self.n):
                    if not self.done[c]:
                        self.left = BIG
                        return c
                return None

    def start(self):
        c = self._advance()
        if c is None:
            self.main.release()
            return
        self.cur = c
        self.sem[c].release()

    def _close_run(self):
        if self.cur is not None and self.run_len:
            self.executed.append([self.cur, self.run_len])
        self.run_len = 0

    # -- called by the running thread ---------------------------------------------
    def step(self, c, loc, frame=None):
        if self.cur != c:
            self.error = "client %d stepped while %r holds the baton" % (c, self.cur)
            return
        self.count[c] += 1
        self.run_len += 1
        if self.record_locations:
            lid = self.loc_ids.get(loc)
            if lid is None:
                lid = self.loc_ids[loc] = len(self.loc_ids)
            self.locs[c].append(lid)
        if self.watch is not None:
            self.watch(c, loc, frame)
        self.left -= 1
        if self.left <= 0:
            self._close_run()
            t = self._advance()
            if t is None or t == c:
                self.cur = c
                if t is None:
                    self.left = BIG
                return
            self.switches += 1
            self.switch_locs.append((c, loc))
            self.cur = t
            self.sem[t].release()
            self.sem[c].acquire()

    def finish(self, c):
        self.done[c] = True
        self._close_run()
        t = self._advance()
        if t is None:
            self.cur = None
            self.main.release()
        else:
            self.cur = t
            self.sem[t].release()

    # -- peer yield hook (World.yield_point) ----------------------------------------
    def peer_yield(self, ctx, what):
        if ctx.cid < self.n and threading.current_thread() is self.threads[ctx.cid]:
            self.step(ctx.cid, ("peer", what))

    # -- tracing -------------------------------------------------------------------
    def make_tracer(self, c):
        sched = self
        pref = COBYQA_DIR

        def local(frame, event, arg):
            if event == "line":
                sched.step(c, (frame.f_code.co_filename, frame.f_lineno), frame)
            return local

        def tracer(frame, event, arg):
            if event == "call" and frame.f_code.co_filename.startswith(pref):
                return local
            return None

        return tracer

    def run(self, bodies, timeout=300.0):
        """bodies: list of zero-argument callables, one per client.  Returns their results."""
        results = [None] * self.n
        errors = [None] * self.n

        def runner(c):
            self.sem[c].acquire()
            try:
                sys.settrace(self.make_tracer(c))
                try:
                    results[c] = bodies[c]()
                finally:
                    sys.settrace(None)
            except BaseException as e:  # harness failure inside a client thread
                errors[c] = e
            finally:
                self.finish(c)

        self.threads = [threading.Thread(target=runner, args=(c,), name="sim-client-%d" % c, daemon=True)
                        for c in range(self.n)]
        for t in self.threads:
            t.start()
        self.start()
        if not self.main.acquire(timeout=timeout):
            raise SchedError("threaded world did not finish within %.0f s (cur=%r done=%r)" % (timeout, self.cur, self.done))
        for t in self.threads:
            t.join(timeout=10.0)
        if self.error:
            raise SchedError(self.error)
        for e in errors:
            if e is not None:
                raise e
        return results
