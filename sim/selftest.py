"""Self-tests of the machinery itself.

selftest-determinism: every engine's cases are run twice in this process and once
  in fresh interpreters under two other PYTHONHASHSEED values; the case digests
  (covering every world's history digest, results, counters) must agree.
selftest-mutants: every patch in /verif/mutants (name = <property>_<what>.patch)
  is applied to a scratch copy of /repo outside /repo and /verif; the quick check
  of that property must exit 1 on it.  Patches in /verif/mutants/controls are
  behaviour-preserving edits: every listed check must stay green on them.
"""
import glob
import json
import os
import subprocess
import sys
import time
from concurrent.futures import ThreadPoolExecutor

VERIF = os.path.dirname(os.path.dirname(os.path.abspath(__file__)))


def _digests_subprocess(check, seed, tier, idxs, hashseed):
    env = dict(os.environ)
    env["PYTHONHASHSEED"] = str(hashseed)
    env["VERIF_NO_DETSAMPLE"] = "1"
    cmd = [sys.executable, os.path.join(VERIF, "sim", "cli.py"), check, "--tier", tier, "--seed", str(seed),
           "--digest-cases", ",".join(map(str, idxs))]
    p = subprocess.run(cmd, capture_output=True, text=True, env=env, timeout=3000)
    if p.returncode != 0:
        raise RuntimeError("digest subprocess failed: %s" % (p.stderr[-800:],))
    return json.loads(p.stdout.strip().splitlines()[-1])


def determinism(seed, tier):
    from . import checks
    from .runner import pack_case
    per = {"quick": 24, "thorough": 200}[tier]
    small = {"C05": 6, "C09": 6, "C20": 6, "C11": 12}
    bad = 0
    t0 = time.time()
    report = {}
    jobs = []
    with ThreadPoolExecutor(max_workers=8) as ex:
        for name, spec in sorted(checks.CHECKS.items()):
            n = min(per, small.get(name, per) if tier == "quick" else per // (4 if name in small else 1))
            idxs = list(range(n))
            for hs in (1, 777):
                jobs.append((name, hs, idxs, ex.submit(_digests_subprocess, name, seed, "quick", idxs, hs)))
        inproc = {}
        for name, spec in sorted(checks.CHECKS.items()):
            n = min(per, small.get(name, per) if tier == "quick" else per // (4 if name in small else 1))
            a = {str(i): pack_case(i, spec["case"](seed, i, "quick"))["digest"] for i in range(n)}
            if not spec.get("isolate"):
                b = {str(i): pack_case(i, spec["case"](seed, i, "quick"))["digest"] for i in range(n)}
                diff = [i for i in a if a[i] != b[i]]
                if diff:
                    bad += 1
                    print("NONDETERMINISTIC in-process repeat: %s cases %s" % (name, diff[:5]))
            inproc[name] = a
        for name, hs, idxs, fut in jobs:
            got = fut.result()
            diff = [i for i in inproc[name] if got.get(i) != inproc[name][i]]
            report.setdefault(name, {})["hashseed_%d" % hs] = {"cases": len(idxs), "mismatch": diff}
            if diff:
                bad += 1
                print("NONDETERMINISTIC across interpreters (PYTHONHASHSEED=%d): %s cases %s" % (hs, name, diff[:5]))
    print("selftest-determinism: %d engines, %s, %.0f s, %s" % (len(report), "FAILED" if bad else "all digests agree",
                                                            time.time() - t0, {k: v["hashseed_1"]["cases"] for k, v in report.items()}))
    with open(os.path.join(VERIF, "evidence", "selftest-determinism.json"), "w") as f:
        json.dump({"seed": seed, "tier": tier, "report": report, "failed": bad}, f, indent=1)
    return 2 if bad else 0


def _run_on_patch(patch, check, cases=None, reverse=False):
    cmd = [os.path.join(VERIF, "tools", "with_patch.sh")]
    if reverse:
        cmd.append("-R")
    cmd += [patch, os.path.join(VERIF, "check"), check, "--tier", "quick", "--quiet"]
    if cases:
        cmd += ["--cases", str(cases)]
    env = dict(os.environ)
    env["VERIF_NO_DETSAMPLE"] = "1"
    env["VERIF_EVIDENCE_DIR"] = "/tmp/verif-mutant-evidence"
    env["VERIF_REPLAY_DIR"] = "/tmp/verif-mutant-replays"
    p = subprocess.run(cmd, capture_output=True, text=True, env=env, timeout=3000)
    return p.returncode, (p.stdout + p.stderr)[-600:]


def mutants(seed, tier):
    pats = sorted(glob.glob(os.path.join(VERIF, "mutants", "*.patch")))
    ctrl = sorted(glob.glob(os.path.join(VERIF, "mutants", "controls", "*.patch")))
    missed, alarms = [], []
    rows = []
    t0 = time.time()

    def job(pt):
        prop = os.path.basename(pt).split("_")[0]
        rc, log = _run_on_patch(pt, prop)
        return pt, prop, rc, log

    with ThreadPoolExecutor(max_workers=1) as ex:
        for pt, prop, rc, log in ex.map(job, pats):
            rows.append({"patch": os.path.basename(pt), "check": prop, "exit": rc})
            print("%-46s %s exit=%d %s" % (os.path.basename(pt), prop, rc, "caught" if rc == 1 else "MISSED"))
            if rc != 1:
                missed.append(os.path.basename(pt))

    def cjob(pt):
        meta = os.path.basename(pt).split("__")
        props = meta[1].replace(".patch", "").split("-") if len(meta) > 1 else ["C06"]
        out = []
        for prop in props:
            rc, log = _run_on_patch(pt, prop)
            out.append((pt, prop, rc, log))
        return out

    with ThreadPoolExecutor(max_workers=1) as ex:
        for res in ex.map(cjob, ctrl):
            for pt, prop, rc, log in res:
                rows.append({"control": os.path.basename(pt), "check": prop, "exit": rc})
                print("%-46s %s exit=%d %s" % ("controls/" + os.path.basename(pt), prop, rc,
                                              "quiet" if rc == 0 else "FALSE ALARM"))
                if rc != 0:
                    alarms.append((os.path.basename(pt), prop))
    print("selftest-mutants: %d mutants, %d missed; %d control runs, %d false alarms; %.0f s"
          % (len(pats), len(missed), len([r for r in rows if "control" in r]), len(alarms), time.time() - t0))
    with open(os.path.join(VERIF, "evidence", "selftest-mutants.json"), "w") as f:
        json.dump({"rows": rows, "missed": missed, "false_alarms": alarms}, f, indent=1)
    return 2 if (missed or alarms) else 0


def main(which, seed, tier):
    if which == "selftest-determinism":
        return determinism(seed, tier)
    return mutants(seed, tier)
