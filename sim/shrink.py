"""Minimisation of a failing payload (statement + fault plan + engine parameters)
while the same (property, clause, key) violation persists.  Greedy one-at-a-time
simplification with a budget of candidate runs; deterministic."""
import copy

MAX_RUNS = 300


def _same(p, expect):
    from .engines import replay_payload
    try:
        vs = replay_payload(p)
    except Exception:
        return False
    for v in vs:
        if v.prop == expect["prop"] and v.clause == expect["clause"] and v.key == expect["key"]:
            return True
    return False


def _drop_nonlinear(p, j):
    q = copy.deepcopy(p)
    q["stmt"]["nonlinear"].pop(j)
    nf = []
    for f in q.get("faults", []):
        t = f.get("target")
        if isinstance(t, list) and t[0] == "con":
            if t[1] == j:
                continue
            if t[1] > j:
                f = dict(f)
                f["target"] = ["con", t[1] - 1, t[2]]
        nf.append(f)
    q["faults"] = nf
    q["stmt"].pop("twin", None)
    return q


def candidates(p):
    """Yield simpler payloads, simplest ideas first."""
    stmt = p.get("stmt")
    if stmt is None:
        return
    faults = p.get("faults", [])
    for i in range(len(faults)):
        q = copy.deepcopy(p)
        q["faults"].pop(i)
        yield q
    for i, f in enumerate(faults):
        if f.get("kind") in ("pinf", "ninf", "huge", "nhuge", "noise"):
            q = copy.deepcopy(p)
            q["faults"][i]["kind"] = "nan"
            yield q
    for j in range(len(stmt.get("nonlinear") or [])):
        if p.get("engine") == "world" or True:
            yield _drop_nonlinear(p, j)
    for j in range(len(stmt.get("linear") or [])):
        q = copy.deepcopy(p)
        q["stmt"]["linear"].pop(j)
        yield q
    if stmt.get("bounds") is not None:
        q = copy.deepcopy(p)
        q["stmt"]["bounds"] = None
        yield q
    cb = stmt.get("callback")
    if cb is not None:
        if p.get("engine") not in ("c20d", "c20f", "c20g") and not cb.get("stop_at"):
            q = copy.deepcopy(p)
            q["stmt"]["callback"] = None
            yield q
        if cb.get("mutate"):
            q = copy.deepcopy(p)
            q["stmt"]["callback"]["mutate"] = False
            yield q
        if cb.get("style") not in ("pos", "kw", "objfalsy"):
            q = copy.deepcopy(p)
            q["stmt"]["callback"]["style"] = "kw" if cb["style"].endswith("kw") else "pos"
            yield q
    obj = stmt.get("obj")
    if obj is not None:
        if obj.get("fam") != "quad" or obj.get("e") or any(d != 1.0 for d in obj.get("d", [])):
            q = copy.deepcopy(p)
            q["stmt"]["obj"] = {"fam": "quad", "c": [0.0] * stmt["n"], "d": [1.0] * stmt["n"], "e": 0.0,
                                "ret": "float", "args": None}
            q["stmt"].pop("twin", None)
            yield q
        if obj.get("mutates"):
            q = copy.deepcopy(p)
            q["stmt"]["obj"]["mutates"] = False
            yield q
        for key, val in (("noise", 0.0), ("ret", "float"), ("args", None)):
            if key == "ret" and obj.get("ret") in ("arr1_reused", "arr0_reused"):
                pass
            if obj.get(key) not in (val, None) or (key == "args" and obj.get("args") is not None):
                q = copy.deepcopy(p)
                q["stmt"]["obj"][key] = val
                yield q
    for key in sorted((stmt.get("options") or {}).keys()):
        q = copy.deepcopy(p)
        del q["stmt"]["options"][key]
        yield q
    for key in sorted((stmt.get("constants") or {}).keys()):
        q = copy.deepcopy(p)
        del q["stmt"]["constants"][key]
        yield q
    for key, val in (("x0_form", "list"), ("constraints_form", "list")):
        if stmt.get(key) not in (val, None):
            q = copy.deepcopy(p)
            q["stmt"][key] = val
            yield q
    for j, ns in enumerate(stmt.get("nonlinear") or []):
        if len(ns["comps"]) > 1:
            q = copy.deepcopy(p)
            qs = q["stmt"]["nonlinear"][j]
            qs["comps"] = qs["comps"][:1]
            for lim in ("lb", "ub"):
                if isinstance(qs.get(lim), list):
                    qs[lim] = qs[lim][:1]
            q["faults"] = [f for f in q.get("faults", [])
                           if not (isinstance(f.get("target"), list) and f["target"][1] == j and f["target"][2] > 0)]
            yield q
    mf = (stmt.get("options") or {}).get("maxfev")
    if isinstance(mf, int) and mf > 1:
        for new in sorted(set([1, 2, 3, mf // 2, mf - 1])):
            if 1 <= new < mf:
                q = copy.deepcopy(p)
                q["stmt"]["options"]["maxfev"] = new
                yield q
    if p.get("engine") in ("c20d", "c20g") and p.get("k", 1) > 1:
        for new in sorted(set([1, 2, p["k"] // 2, p["k"] - 1])):
            if 1 <= new < p["k"]:
                q = copy.deepcopy(p)
                q["k"] = new
                yield q


def minimise(payload):
    expect = payload["expect"]
    if payload.get("engine") not in ("world", "c20d", "c20f", "c20g", "nested_world"):
        from . import engines_ext
        fn = getattr(engines_ext, "minimise", None)
        return fn(payload) if fn else payload
    cur = copy.deepcopy(payload)
    runs = 0
    if not _same(cur, expect):
        return payload
    progress = True
    while progress and runs < MAX_RUNS:
        progress = False
        for q in candidates(cur):
            runs += 1
            if runs > MAX_RUNS:
                break
            if _same(q, expect):
                cur = q
                progress = True
                break
    cur["minimised"] = {"candidate_runs": runs}
    return cur
