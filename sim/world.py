"""One world = one exactly repeatable execution of real cobyqa.minimize calls
against simulator-owned peers, under one fault plan (and, for threaded worlds,
one schedule).  This module runs single-client worlds; sched.py adds threads.
"""
import contextlib
import hashlib
import io
import os
import sys
import traceback
import warnings

import numpy as np

SRC = os.environ.get("COBYQA_SRC", "/repo")
if sys.path[0] != SRC:
    sys.path.insert(0, SRC)

import cobyqa  # noqa: E402  (real code, from the working tree)
from cobyqa import minimize  # noqa: E402

from . import probes  # noqa: E402
from .build import Call  # noqa: E402
from .peers import ClientCtx, PeerError  # noqa: E402

COBYQA_DIR = os.path.dirname(os.path.abspath(cobyqa.__file__))
assert os.path.abspath(COBYQA_DIR).startswith(os.path.abspath(SRC)), (
    "cobyqa imported from %s, expected under %s" % (COBYQA_DIR, SRC))

probes.install(cobyqa)


class World:
    """Global logical clock, scheduler hook and re-entrancy hook."""

    def __init__(self):
        self._seq = 0
        self.sched = None
        self.reenter_hook = None
        self.shared = {}

    def tick(self):
        self._seq += 1
        return self._seq

    def yield_point(self, ctx, what):
        if self.sched is not None:
            self.sched.peer_yield(ctx, what)


class Record:
    """Everything observed about one client's minimize() call."""

    def __init__(self, stmt, faults):
        self.stmt = stmt
        self.faults = faults
        self.res = None          # dict of result fields
        self.exc = None          # dict(type, msg, frame, tb) if minimize raised
        self.events = []
        self.probe = None
        self.fired = {}
        self.warnings = []
        self.stdout = ""
        self.snap_before = None
        self.snap_after = None
        self.harness_error = None
        self.hang = None
        self.steps = None

    # ---- derived views -----------------------------------------------------
    def user_events(self):
        return [e for e in self.events if not e.get("probe") and e["k"] in ("obj", "con", "cb", "cb_raise")]

    def evaluations(self):
        """Group the peer events into evaluations.

        Ground truth for grouping is the probe on Problem.__call__ (begin/end)
        when available; otherwise a new group starts at every objective call
        (or, without objective, whenever the point changes).  Events outside
        any group are returned separately as strays."""
        groups = []
        strays = []
        evs = [e for e in self.events if not e.get("probe")]
        have_probe = any(e["k"] == "begin" for e in evs)
        curg = None
        if have_probe:
            for e in evs:
                k = e["k"]
                if k == "begin":
                    curg = {"obj": [], "con": [], "cb": [], "kind": e.get("kind"), "xi": e.get("xi"), "raised": False}
                    groups.append(curg)
                elif k == "end":
                    if curg is not None:
                        curg["exc"] = e.get("exc")
                    curg = None
                elif k == "jac":
                    strays.append(e)
                elif k in ("obj", "con", "cb"):
                    if curg is None:
                        strays.append(e)
                    else:
                        curg[k].append(e)
                elif k == "cb_raise" and curg is not None:
                    curg["raised"] = True
        else:
            has_obj = self.stmt.get("obj") is not None
            lastx = None
            for e in evs:
                k = e["k"]
                if k not in ("obj", "con", "cb", "cb_raise"):
                    continue
                new = False
                if has_obj:
                    new = k == "obj"
                elif k == "con":
                    new = curg is None or e["x"] != lastx or any(c["j"] == e["j"] for c in curg["con"]) or bool(curg["cb"])
                if new:
                    curg = {"obj": [], "con": [], "cb": [], "kind": None, "xi": None, "raised": False}
                    groups.append(curg)
                if curg is None:
                    strays.append(e)
                    continue
                if k == "cb_raise":
                    curg["raised"] = True
                else:
                    curg[k].append(e)
                if k == "con":
                    lastx = e["x"]
        return groups, strays

    def digest(self):
        h = hashlib.sha256()
        for e in self.events:
            if e.get("probe"):
                continue
            k = e["k"]
            if k == "obj":
                h.update(b"o" + e["x"] + np.float64(e["v"]).tobytes())
            elif k == "con":
                h.update(b"c%d" % e["j"] + e["x"] + np.array(e["v"], dtype=float).tobytes())
            elif k == "cb":
                h.update(b"b" + e["x"] + np.float64(e["fun"] if e["fun"] is not None else 0.0).tobytes())
            elif k == "cb_raise":
                h.update(b"r")
            elif k == "linalg_fail":
                h.update(b"l%d" % e["i"])
        if self.res is not None:
            for key in ("status", "nfev", "nit", "success", "message"):
                h.update(repr(self.res.get(key)).encode())
            h.update(np.array(self.res["x"], dtype=float).tobytes())
            h.update(np.float64(self.res["fun"]).tobytes())
            h.update(np.float64(self.res["maxcv"]).tobytes())
            for key in ("fun_history", "maxcv_history"):
                if self.res.get(key) is not None:
                    h.update(np.array(self.res[key], dtype=float).tobytes())
        if self.exc is not None:
            h.update(("exc:" + self.exc["type"] + ":" + self.exc["frame"]).encode())
        return h.hexdigest()


def _exc_info(e):
    tb = traceback.extract_tb(e.__traceback__)
    frame = "?"
    inner = "?"
    for fr in tb:
        fn = os.path.abspath(fr.filename)
        if fn.startswith(COBYQA_DIR):
            frame = "%s:%s" % (os.path.relpath(fn, COBYQA_DIR), fr.name)
    if tb:
        inner = "%s:%s:%d" % (os.path.basename(tb[-1].filename), tb[-1].name, tb[-1].lineno)
    return {"type": type(e).__name__, "msg": str(e)[:300], "frame": frame, "inner": inner,
            "tb": "".join(traceback.format_exception(type(e), e, e.__traceback__))[-3000:]}


def result_to_dict(res):
    d = {}
    for key in ("message", "success", "status", "x", "fun", "maxcv", "nfev", "nit", "fun_history", "maxcv_history"):
        if hasattr(res, key):
            v = getattr(res, key)
            d[key] = v
            d["type_" + key] = type(v).__name__
        else:
            d[key] = None
    d["keys"] = sorted(res.keys()) if hasattr(res, "keys") else None
    d["res_type"] = type(res).__name__
    if isinstance(d["x"], np.ndarray):
        d["x_dtype"] = d["x"].dtype.str
        d["x_shape"] = d["x"].shape
        d["x"] = np.array(d["x"], dtype=float)
    return d


class StepCapExceeded(BaseException):
    """Raised by the step-counting tracer (C08.f): too many cobyqa source lines executed between two
    consecutive peer events."""


def _step_cap_tracer(ctx, cap):
    state = {"n": 0, "events": 0, "max_gap": 0, "total": 0}
    ctx.step_state = state

    def local(frame, event, arg):
        if event == "line":
            ne = len(ctx.events)
            if ne != state["events"]:
                state["events"] = ne
                state["max_gap"] = max(state["max_gap"], state["n"])
                state["n"] = 0
            state["n"] += 1
            state["total"] += 1
            if state["n"] > cap:
                state["max_gap"] = state["n"]
                raise StepCapExceeded("more than %d cobyqa source lines executed since the last peer event" % cap)
        return local

    def tracer(frame, event, arg):
        if event == "call" and frame.f_code.co_filename.startswith(COBYQA_DIR):
            return local
        return None

    return tracer


def run_client(stmt, faults=(), world=None, cid=0, use_probes=True, shared=None, capture=True,
               normalize_layout=False, step_cap=None):
    """Run one real minimize() call for the materialised statement."""
    world = world or World()
    faults = list(faults)
    rec = Record(stmt, faults)
    ctx = ClientCtx(world, cid, stmt, faults)
    ctx.normalize_layout = normalize_layout
    if use_probes:
        ctx.probe = probes.ProbeState()
    try:
        call = Call(ctx, stmt, shared if shared is not None else world.shared)
    except Exception as e:  # building the call is harness code
        rec.harness_error = "build: %s" % (_exc_info(e)["tb"],)
        return rec
    rec.snap_before = call.snapshot()
    out = io.StringIO()
    probes.push(ctx)
    try:
        with contextlib.ExitStack() as stack:
            if capture:
                stack.enter_context(contextlib.redirect_stdout(out))
                wlist = stack.enter_context(warnings.catch_warnings(record=True))
                warnings.simplefilter("always")
            else:
                wlist = []
            try:
                if step_cap:
                    sys.settrace(_step_cap_tracer(ctx, int(step_cap)))
                try:
                    res = minimize(call.fun, call.x0, **call.kwargs())
                finally:
                    if step_cap:
                        sys.settrace(None)
                rec.res = result_to_dict(res)
            except StepCapExceeded as e:
                rec.hang = str(e)
            except PeerError as e:
                rec.harness_error = "peer: %s" % (_exc_info(e)["tb"],)
            except (KeyboardInterrupt, SystemExit, MemoryError):
                raise
            except BaseException as e:
                rec.exc = _exc_info(e)
            rec.warnings = [(w.category.__name__, str(w.message)[:200]) for w in wlist]
    finally:
        probes.pop()
    rec.stdout = out.getvalue()
    rec.snap_after = call.snapshot()
    rec.events = ctx.events
    rec.probe = ctx.probe
    rec.fired = dict(ctx.fired)
    rec.steps = getattr(ctx, "step_state", None)
    rec.ctx = ctx
    rec.call = call
    return rec
