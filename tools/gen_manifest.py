#!/venv/bin/python
"""Generate /verif/MANIFEST.json from the check registry (single source of truth)."""
import json
import os
import sys

VERIF = os.path.dirname(os.path.dirname(os.path.abspath(__file__)))
sys.path.insert(0, VERIF)

LEVEL_TEXT = {
    "C01": ("exploration", "§4 C01, §11.4", "Seeded faulted worlds (bound-heavy statements, scale on/off, fixed and near-fixed variables, NaN regions, SOC-biased statements, re-entrant variants) run against the real minimize; every point crossing the solver->user seam is checked exactly and the pre-projection trial point (probe) up to rounding at the scale the coordinate has had. Sampling, not proof."),
    "C02": ("exploration", "§4 C02, §11.4", "Result compared with the recorded reply history and an independent user-space violation model over the cross product of statement forms and forced endings; user functions must receive the extra arguments the user stated; re-entrant variants."),
    "C03": ("exploration", "§4 C03, §11.4", "Filter state machine driven with seeded reply histories (ties, NaN, inf, tolerance edge) against a plain-list reference model after every operation, plus end-to-end world clauses (feasible first, not dominated, merit with the final penalty, finite filter_size retention model, returned x produced the returned values, exact decisions at feasibility_tol = 0)."),
    "C05": ("fault_enumeration", "§4 C05, §11.4", "Budget exhaustion (maxfev=k, maxiter=k) injected at every evaluation index of each sampled run (up to the tier cap, always around nb_points); counters and histories compared with the simulator's ground-truth history, also for re-entrant calls and for objectives that reuse their output buffer."),
    "C06": ("exploration", "§4 C06, §11.4", "Exactly-once / never-behind-the-scenes grammar over the recorded call history of every peer, in faulted worlds with 1-3 nonlinear constraint objects, including functions that overwrite their input, stated extra arguments, verbose mode and re-entrant variants."),
    "C07": ("exploration", "§4 C07, §11.4", "Every ending is made to happen by the simulator (stop@k, target - also first met at infeasible points -, budgets, all-fixed, inconsistent bounds, eigh faults, and crash worlds in which a user function raises at evaluation k) and the reported status is checked against that ground truth (only-when clauses, true violation of the returned point) and against the documentation table parsed at run time."),
    "C08": ("exploration", "§4 C08, §11.4", "Widest fault mix (NaN/inf/huge replies one-shot, sticky and regional; every kind at every evaluation index for one statement in 16; eigh failures; hostile callbacks; integer / boolean replies; functions that raise when handed internal variables; degenerate bounds): minimize must return a well-formed result, never raise, never label an undefined result successful; bounded progress by a line-counting tracer on a sample and on watchdog hits."),
    "C09": ("fault_enumeration", "§4 C09, §11.4", "A stop request (callback StopIteration, target, feasibility, target+tolerance pair at every SOC evaluation) is injected at every evaluation index of each sampled run up to the tier cap, labelled by step kind; forward, converse and result clauses over the history, the returned point judged by its true violation."),
    "C10": ("exploration", "§4 C10, §11.3", "Differential simulation: paired worlds under one point-keyed fault plan with memory layout normalised; bitwise trace equality for syntactic restatements, faithfulness of the internal linear data + no-leak (explicit restatement built from the solver's own arrays) for fixed variables and scaling."),
    "C11": ("exploration", "§3.4, §4 C11, §11.4", "Threaded worlds under a seeded baton-passing scheduler (line-level pre-emption inside cobyqa, write-set discovery, exact guided schedules), nested and repeated calls with user objects dropped in between, argument snapshots, dirty-allocator seam; every client must equal its sequential baseline bit for bit. Cases run in freshly forked children."),
    "C12": ("exploration", "§4 C12, §11.3", "Models state machine (replace / shift / reset with near-duplicate, collinear, far points, barrier replies, eigh faults) with interpolation, twin-consistency, structural and recorded-value oracles after every op, plus the same clauses (and recorded constraint values, bitwise) probed inside real runs."),
    "C18": ("exploration", "§4 C18, §11.4", "Invariants probed at every iteration and every main-loop evaluation of faulted worlds over 30 decades of radii and randomised constants (order relation, monotone resolution, penalty, centre = least merit, ties to the smaller violation, protected centre, bounded number of reductions), plus a radius state machine driving the real update rules."),
    "C20": ("fault_enumeration", "§4 C20, §11.4", "Counterfactual branching: for every callback call k of a sampled run the same world is re-run with StopIteration at k and, for every second k, with maxfev=k; the returned point must be bit-equal to what call k received; all callback styles incl. partials and falsy callables, optional prelude call with the other convention, forked cases."),
}
TECH = "deterministic simulation with fault injection (seeded worlds, scripted peers, replayable fault plans)"
TECHS = {
    "C05": "deterministic simulation with fault injection: budget exhaustion enumerated at every evaluation index of seeded worlds, history oracles",
    "C09": "deterministic simulation with fault injection: stop requests (cancellation, target, feasibility) enumerated at every evaluation index of seeded worlds",
    "C20": "deterministic simulation with fault injection: counterfactual branching (re-run of the same world stopped at every callback call)",
    "C03": "deterministic simulation with fault injection: component state machine vs plain-list reference model, plus seeded faulted worlds",
    "C12": "deterministic simulation with fault injection: component state machine (operation / fault histories) plus read-only probes inside seeded worlds",
    "C18": "deterministic simulation with fault injection: component state machine plus per-iteration probes inside seeded faulted worlds",
    "C10": "deterministic simulation with fault injection: differential (paired) worlds under one point-keyed fault plan",
    "C11": "deterministic simulation: seeded baton-passing thread scheduler (line-level pre-emption, write-set-guided schedules), nested / repeated calls, dirty-allocator seam",
}
NA = {
    "C04": "fault-free input->output accuracy on reference families: a pure function of the inputs with no schedule, fault, cut point or history (DESIGN §2.3)",
    "C13": "numerical identity against exact arithmetic: pure function of the interpolation data (DESIGN §2.3); the history-shaped part is claimed as C12",
    "C14": "pure function of (interpolation set, candidate point, index) (DESIGN §2.3)",
    "C15": "pure functions of subproblem data, called with internal closures, no peer/fault/schedule (DESIGN §2.3); seam consequence covered by C01.d",
    "C16": "pure functions of subproblem data needing an independent numerical reference (DESIGN §2.3)",
    "C17": "pure translation of limits into rows (DESIGN §2.3); observable consequence checked end to end by C02.c",
    "C19": "pure validation of a configuration dict: no fault, schedule or history (DESIGN §2.3)",
}


def main():
    from sim import cli
    cli.load_all()
    from sim.checks import CHECKS
    checks = []
    claimed = set()
    for name in sorted(CHECKS):
        spec = CHECKS[name]
        if spec.get("selftest"):
            continue
        prop = spec["property"]
        if prop in claimed:
            continue
        claimed.add(prop)
        cat, ref, text = LEVEL_TEXT[prop]
        checks.append({
            "property_id": prop,
            "quick_cmd": "./check %s --tier quick" % name,
            "thorough_cmd": "./check %s --tier thorough" % name,
            "evidence_file": "/verif/evidence/%s.json" % prop,
            "replay_cmd_template": "./check %s --replay {path}" % name,
            "engine": spec.get("engine", "world"),
            "level_claimed": {"category": spec["level"], "text": text, "design_ref": ref},
            "level_note": "Trusted base: numpy/scipy, the harness' scripted peers and reference models (sim/refmodel.py); "
                          "internal probes are read-only wrappers installed at run time. Sampled, not exhaustive: a clean "
                          "batch is evidence, not proof.",
            "technique": TECHS.get(prop, TECH),
        })
    na = [{"property_id": k, "reason": v} for k, v in sorted(NA.items())]
    for pid in sorted(LEVEL_TEXT):
        if pid not in claimed:
            na.append({"property_id": pid, "reason": "check not built yet (planned, see DESIGN.md §9); no claim is made until it exists"})
    man = {
        "version": 1,
        "setup_cmd": "/venv/bin/python -c \"import numpy, scipy, sys; sys.path.insert(0, '/repo'); import cobyqa; print('ok', cobyqa.__version__)\"",
        "hooks": {
            "guard": "COBYQA_VERIF",
            "enable": "no source hooks exist: seams are user callables, module attributes (cobyqa.models.eigh, cobyqa.models.build_system), class attributes wrapped at run time and sys.settrace; the guard name is reserved and unused",
            "baseline_off_cmd": "cd /repo && /venv/bin/python -m pytest -q -p no:cacheprovider --timeout=900",
            "source_commits": [],
            "add_only": True,
        },
        "engines": [
            {"name": "world", "path": "/verif/sim", "serves_properties": sorted(claimed),
             "kind_free_text": "single-process deterministic simulator: real cobyqa.minimize against scripted peers, seeded fault plans, cut-point enumeration, component state machines, baton-passing thread scheduler"},
        ],
        "checks": checks,
        "not_applicable": na,
        "notes": "All checks: exit 0 held / exit 1 + VIOLATION line / exit 2 harness error. VERIF_SEED selects the explored set. See DESIGN.md.",
    }
    with open(os.path.join(VERIF, "MANIFEST.json"), "w") as f:
        json.dump(man, f, indent=1)
    print("wrote MANIFEST.json: %d checks, %d not applicable" % (len(checks), len(na)))


if __name__ == "__main__":
    main()
