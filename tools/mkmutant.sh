#!/bin/bash
# usage: tools/mkmutant.sh <name> <python-edit-script>   (script edits files relative to a scratch copy of /repo)
NAME=$1; SCRIPT=$(realpath $2)
D=$(mktemp -d /tmp/mkmut.XXXXXX); trap 'rm -rf $D' EXIT
rsync -a --exclude .git --exclude __pycache__ --exclude '*.egg-info' /repo/ $D/a/ && cp -r $D/a $D/b
( cd $D/b && /venv/bin/python $SCRIPT ) || exit 1
( cd $D && diff -ruN a b | grep -v '^Only in' | grep -v '^diff ' ) > /verif/mutants/$NAME.patch
grep -c '^@@' /verif/mutants/$NAME.patch
