#!/venv/bin/python
"""Regenerate /verif/mutants/*.patch (sensitivity catalogue) and mutants/controls/*.patch
(behaviour-preserving edits) from /repo's current HEAD.  Each entry is (name, file, old, new)."""
import os
import shutil
import subprocess
import sys
import tempfile

M = []      # mutants: name starts with the property expected to catch it
C = []      # controls: name__<checks that must stay quiet, dash separated>


def m(name, file, old, new, count=1):
    M.append((name, file, old, new, count))


def c(name, file, old, new, count=1):
    C.append((name, file, old, new, count))


# ---- C01 ------------------------------------------------------------------------------
m("C01_soc_bounds_relative_to_xbest", "cobyqa/framework.py",
  "        xl = self._pb.bounds.xl - self.x_best - step\n        xu = self._pb.bounds.xu - self.x_best - step\n",
  "        xl = self._pb.bounds.xl - self.x_best\n        xu = self._pb.bounds.xu - self.x_best\n")
m("C01_build_x_without_projection", "cobyqa/problem.py",
  "        return self._orig_bounds.project(x_full)\n", "        return x_full\n")
# ---- C02 ------------------------------------------------------------------------------
m("C02_filter_stores_clipped_fun", "cobyqa/problem.py",
  "        if include_point:\n            self._fun_filter.append(fun_val)\n",
  "        if include_point:\n            self._fun_filter.append(max(min(fun_val, BARRIER), -BARRIER))\n")
m("C02_maxcv_drops_linear_when_nonlinear", "cobyqa/problem.py",
  "        if len(self.linear.pcs):\n            lc = self.linear.violation(x)\n            violation.append(lc)\n",
  "        if len(self.linear.pcs) and not len(self._nonlinear.pcs):\n            lc = self.linear.violation(x)\n            violation.append(lc)\n")
# ---- C03 ------------------------------------------------------------------------------
m("C03_feasible_uses_strict_tol", "cobyqa/problem.py",
  "            feasible_idx = maxcv_filter <= self._feasibility_tol\n",
  "            feasible_idx = maxcv_filter < self._feasibility_tol\n")
# ---- C05 ------------------------------------------------------------------------------
m("C05_budget_off_by_one", "cobyqa/main.py",
  "    if pb.n_eval >= options[Options.MAX_EVAL]:\n", "    if pb.n_eval > options[Options.MAX_EVAL]:\n")
m("C05_nfev_counts_objective_only", "cobyqa/problem.py",
  "        cub_val, ceq_val = self._nonlinear(x_full)\n        self._n_eval += 1\n",
  "        cub_val, ceq_val = self._nonlinear(x_full)\n        self._n_eval += 0 if self._obj._fun is None else 1\n")
# ---- C06 ------------------------------------------------------------------------------
m("C06_merit_reevaluates_constraints", "cobyqa/framework.py",
  "            c_val = self._pb.violation(x, cub_val=cub_val, ceq_val=ceq_val)\n",
  "            c_val = self._pb.violation(x, cub_val=cub_val, ceq_val=ceq_val)\n            if self._penalty > 1e3 and len(self._pb._nonlinear.pcs):\n                self._pb._nonlinear.violation(self._pb.build_x(x))\n")
m("C06_verbose_recomputes_violation", "cobyqa/main.py",
  "                maxcv_val = pb.maxcv(\n                    framework.x_best, framework.cub_best, framework.ceq_best\n                )\n",
  "                maxcv_val = pb.maxcv(framework.x_best)\n")
# ---- C07 ------------------------------------------------------------------------------
m("C07_soc_budget_reports_maxiter", "cobyqa/main.py",
  "                        except MaxEvalError:\n                            status = ExitStatus.MAX_EVAL_WARNING\n                            break\n\n                # Calculate the reduction ratio.",
  "                        except MaxEvalError:\n                            status = ExitStatus.MAX_ITER_WARNING\n                            break\n\n                # Calculate the reduction ratio.")
m("C07_success_without_finite_test", "cobyqa/main.py",
  "    success = success and np.isfinite(fun) and np.isfinite(maxcv)\n", "    success = success and not np.isnan(maxcv)\n")
m("C07_target_status_skips_feasibility", "cobyqa/models.py",
  "                self._fun_val[k] <= options[Options.TARGET]\n                and pb.maxcv(\n                    self.interpolation.point(k),\n                    self.cub_val[k, :],\n                    self.ceq_val[k, :],\n                )\n                <= options[Options.FEASIBILITY_TOL]\n",
  "                self._fun_val[k] <= options[Options.TARGET]\n                and (k > 0 or pb.maxcv(\n                    self.interpolation.point(k),\n                    self.cub_val[k, :],\n                    self.ceq_val[k, :],\n                )\n                <= options[Options.FEASIBILITY_TOL])\n")
# ---- C08 ------------------------------------------------------------------------------
m("C08_geometry_linalg_handler_removed", "cobyqa/main.py",
  "            try:\n                step = framework.get_geometry_step(k_new, options)\n            except np.linalg.LinAlgError:\n                status = ExitStatus.LINALG_ERROR\n                break\n",
  "            step = framework.get_geometry_step(k_new, options)\n")
m("C08_nan_objective_breaks_filter_compare", "cobyqa/problem.py",
  "        if np.isnan(fun_val) and np.isnan(maxcv_val):\n            include_point = len(self._fun_filter) == 0\n",
  "        if np.isnan(fun_val) and np.isnan(maxcv_val):\n            include_point = len(self._fun_filter) == 0 or self._fun_filter[len(self._fun_filter)] is None\n")
# ---- C09 ------------------------------------------------------------------------------
m("C09_target_strict_in_main_loop", "cobyqa/main.py",
  "        fun_val <= options[Options.TARGET]\n        and r_val <= options[Options.FEASIBILITY_TOL]\n",
  "        fun_val < options[Options.TARGET]\n        and r_val <= options[Options.FEASIBILITY_TOL]\n")
m("C09_geometry_callback_stop_ignored", "cobyqa/main.py",
  "            except CallbackSuccess:\n                status = ExitStatus.CALLBACK_SUCCESS\n                success = True\n                break\n            except MaxEvalError:\n                status = ExitStatus.MAX_EVAL_WARNING\n                break\n\n            # Update the interpolation set.",
  "            except CallbackSuccess:\n                continue\n            except MaxEvalError:\n                status = ExitStatus.MAX_EVAL_WARNING\n                break\n\n            # Update the interpolation set.")
m("C09_feasible_test_only_after_sampling", "cobyqa/models.py",
  "                pb.is_feasibility\n                and pb.maxcv(", "                pb.is_feasibility\n                and k == 0\n                and pb.maxcv(")
# ---- C10 ------------------------------------------------------------------------------
m("C10_defaults_from_n_orig", "cobyqa/main.py",
  "    _set_default_options(options, pb.n)\n", "    _set_default_options(options, pb.n_orig)\n")
m("C10_fixed_columns_not_subtracted_from_eq", "cobyqa/problem.py",
  "        b_eq = linear.b_eq - linear.a_eq[:, self._fixed_idx] @ self._fixed_val\n",
  "        b_eq = linear.b_eq - 0.0 * (linear.a_eq[:, self._fixed_idx] @ self._fixed_val)\n")
m("C10_dict_ineq_sign", "cobyqa/main.py",
  "                    np.zeros(1),\n                    np.full(1, 0.0 if constraint[\"type\"] == \"eq\" else np.inf),\n",
  "                    np.zeros(1) if constraint[\"type\"] == \"eq\" or not constraint.get(\"args\") else np.full(1, -1e-12),\n                    np.full(1, 0.0 if constraint[\"type\"] == \"eq\" else np.inf),\n")
# ---- C11 ------------------------------------------------------------------------------
m("C11_options_not_copied", "cobyqa/main.py",
  "    else:\n        options = dict(options)\n", "    else:\n        options = options\n")
m("C11_x0_projected_in_place", "cobyqa/problem.py",
  "        x0 = exact_1d_array(x0, \"The initial guess must be a vector.\")\n",
  "        x0 = exact_1d_array(x0, \"The initial guess must be a vector.\") if not isinstance(x0, np.ndarray) or x0.dtype != float or x0.ndim != 1 else x0\n        if isinstance(x0, np.ndarray) and bounds.is_feasible and bounds.xl.size == x0.size:\n            np.clip(x0, bounds.xl, bounds.xu, out=x0)\n")
# ---- C12 ------------------------------------------------------------------------------
m("C12_short_circuit_or", "cobyqa/models.py",
  "            ill_conditioned = self._cub[i].update(\n                self.interpolation,\n                k_new,\n                dir_old,\n                cub_diff[:, i],\n            ) or ill_conditioned\n",
  "            ill_conditioned = ill_conditioned or self._cub[i].update(\n                self.interpolation,\n                k_new,\n                dir_old,\n                cub_diff[:, i],\n            )\n")
m("C12_reset_skips_equality_models", "cobyqa/models.py",
  "        for i in range(self.m_nonlinear_eq):\n            self._ceq[i] = Quadratic(\n                self.interpolation,\n                self.ceq_val[:, i],\n                self._debug,\n            )\n        if self._debug:\n            self._check_interpolation_conditions()\n\n    def update_interpolation",
  "        for i in range(self.m_nonlinear_eq - 1):\n            self._ceq[i] = Quadratic(\n                self.interpolation,\n                self.ceq_val[:, i],\n                self._debug,\n            )\n        if self._debug:\n            self._check_interpolation_conditions()\n\n    def update_interpolation")
# ---- C18 ------------------------------------------------------------------------------
m("C18_radius_assigned_past_setter", "cobyqa/main.py",
  "            framework.radius *= constants[Constants.DECREASE_RESOLUTION_FACTOR]\n",
  "            framework._radius *= constants[Constants.DECREASE_RESOLUTION_FACTOR]\n")
m("C18_best_point_not_protected", "cobyqa/framework.py",
  "            weights[self.best_index] = -1.0  # do not remove the best point\n", "")
m("C18_resolution_floor_removed", "cobyqa/framework.py",
  "            self.resolution = max(\n                self._constants[Constants.DECREASE_RESOLUTION_FACTOR]\n                * self.resolution,\n                options[Options.RHOEND],\n            )\n",
  "            self.resolution *= self._constants[\n                Constants.DECREASE_RESOLUTION_FACTOR\n            ]\n")
m("C18_penalty_decrease_without_best_update", "cobyqa/framework.py",
  "        self._penalty = min(self._penalty, self._get_low_penalty())\n        self.set_best_index()\n",
  "        self._penalty = min(self._penalty, self._get_low_penalty())\n")
# ---- C20 ------------------------------------------------------------------------------
m("C20_callback_gets_evaluated_point", "cobyqa/problem.py",
  "                x_best, fun_best, _ = self.best_eval(penalty)\n                x_best = self.build_x(x_best)\n",
  "                x_best, fun_best, _ = self.best_eval(penalty)\n                if penalty > 0.0:\n                    x_best, fun_best = x, fun_val\n                x_best = self.build_x(x_best)\n")
m("C20_callback_uses_zero_penalty", "cobyqa/problem.py",
  "                x_best, fun_best, _ = self.best_eval(penalty)\n", "                x_best, fun_best, _ = self.best_eval(0.0)\n")
m("C08_no_lower_barrier_for_inequality_values", "cobyqa/problem.py",
  "        cub_val = np.maximum(np.minimum(cub_val, BARRIER), -BARRIER)\n", "        cub_val = np.minimum(cub_val, BARRIER)\n")
m("C03_merit_ignores_penalty_on_ties", "cobyqa/problem.py",
  "                    fun_filter[finite_idx] + penalty * maxcv_filter[finite_idx]\n",
  "                    fun_filter[finite_idx] + min(penalty, 1e6) * maxcv_filter[finite_idx]\n")
m("C05_maxiter_off_by_one", "cobyqa/main.py",
  "        if n_iter >= options[Options.MAX_ITER]:\n", "        if n_iter > options[Options.MAX_ITER]:\n")
m("C07_message_typo", "cobyqa/main.py",
  "        ExitStatus.MAX_EVAL_WARNING: \"The maximum number of function \"\n                                     \"evaluations has been exceeded\",\n",
  "        ExitStatus.MAX_EVAL_WARNING: \"The maximum number of function \"\n                                     \"evaluations has been reached\",\n")
m("C09_soc_target_handler_removed", "cobyqa/main.py",
  "                        except TargetSuccess:\n                            status = ExitStatus.TARGET_SUCCESS\n                            success = True\n                            break\n                        except FeasibleSuccess:",
  "                        except FeasibleSuccess:")
m("C18_penalty_increase_without_best_update", "cobyqa/framework.py",
  "                1.0,\n            )\n            self.set_best_index()\n", "                1.0,\n            )\n")
m("C11_class_level_scratch_buffer", "cobyqa/models.py",
  "        return self._e_hess @ v + interpolation.xpt @ (\n            self._i_hess * (interpolation.xpt.T @ v)\n        )\n",
  "        buf = Quadratic._scratch.setdefault(v.size, np.empty(v.size))\n        np.dot(self._e_hess, v, out=buf)\n        tmp = interpolation.xpt @ (\n            self._i_hess * (interpolation.xpt.T @ v)\n        )\n        return buf + tmp\n")
m("C12_reset_uses_stale_objective_table", "cobyqa/models.py",
  "        self._fun = Quadratic(self.interpolation, self.fun_val, self._debug)\n        for i in range(self.m_nonlinear_ub):\n            self._cub[i] = Quadratic(",
  "        self._fun = Quadratic(self.interpolation, np.roll(self.fun_val, 0) if self.npt < 2 * self.n + 1 else self.fun_val[::1] * (1.0 + 1e-9), self._debug)\n        for i in range(self.m_nonlinear_ub):\n            self._cub[i] = Quadratic(")
# ---- controls (must stay quiet) ----------------------------------------------------------
c("clip_as_minimum_maximum__C01-C06-C08-C20", "cobyqa/problem.py",
  "        return np.clip(x, self.xl, self.xu) if self.is_feasible else x\n",
  "        return np.minimum(np.maximum(x, self.xl), self.xu) if self.is_feasible else x\n")
c("cache_always_misses__C06-C11-C12-C08", "cobyqa/models.py",
  "    if _cache is not None and np.array_equal(\n        interpolation.xpt, _cache[\"xpt\"]\n    ):\n",
  "    if False and _cache is not None and np.array_equal(\n        interpolation.xpt, _cache[\"xpt\"]\n    ):\n")
c("harmless_lru_cache_on_pure_helper__C11-C10-C06", "cobyqa/utils/math.py",
  "EPS = np.finfo(float).eps\n\n\ndef get_arrays_tol(*arrays):",
  "EPS = np.finfo(float).eps\n\n\n@functools.lru_cache(maxsize=None)\ndef _size_weight(size, weight):\n    return 10.0 * EPS * max(size, 1.0) * weight\n\n\ndef get_arrays_tol(*arrays):")
c("reordered_init_statements__C06-C05-C20", "cobyqa/problem.py",
  "        # Set the initial filter.\n        self._feasibility_tol = feasibility_tol\n        self._filter_size = filter_size\n",
  "        # Set the initial filter.\n        self._filter_size = filter_size\n        self._feasibility_tol = feasibility_tol\n")
c("renamed_probed_method__C18-C12-C01", "cobyqa/framework.py",
  "    def get_index_to_remove(self, x_new=None):", "    def get_index_to_drop(self, x_new=None):")


def extra_edits(name, root):
    if name == "C11_class_level_scratch_buffer":
        p = os.path.join(root, "cobyqa/models.py")
        t = open(p).read()
        t = t.replace("class Quadratic:\n    \"\"\"\n    Quadratic model.", "class Quadratic:\n    _scratch = {}\n    \"\"\"\n    Quadratic model.", 1)
        open(p, "w").write(t)
    if name.startswith("harmless_lru_cache"):
        p = os.path.join(root, "cobyqa/utils/math.py")
        s = open(p).read()
        s = s.replace("import numpy as np\n", "import functools\n\nimport numpy as np\n", 1)
        s = s.replace("    return 10.0 * EPS * max(size, 1.0) * weight\n\n\ndef exact_1d_array",
                      "    return _size_weight(int(size), float(weight))\n\n\ndef exact_1d_array")
        open(p, "w").write(s)
    if name.startswith("renamed_probed_method"):
        for f in ("cobyqa/main.py", "cobyqa/framework.py"):
            p = os.path.join(root, f)
            s = open(p).read().replace("get_index_to_remove", "get_index_to_drop")
            open(p, "w").write(s)


def make(entries, outdir):
    os.makedirs(outdir, exist_ok=True)
    bad = []
    for name, file, old, new, count in entries:
        d = tempfile.mkdtemp(prefix="mutcat.")
        try:
            subprocess.check_call(["rsync", "-a", "--exclude", ".git", "--exclude", "__pycache__", "--exclude", "*.egg-info",
                                   "/repo/", d + "/a/"])
            shutil.copytree(d + "/a", d + "/b")
            p = os.path.join(d, "b", file)
            s = open(p).read()
            if s.count(old) != count:
                bad.append((name, "pattern occurs %d times" % s.count(old)))
                continue
            open(p, "w").write(s.replace(old, new))
            extra_edits(name, os.path.join(d, "b"))
            r = subprocess.run(["python3", "-m", "py_compile", p], capture_output=True)
            if r.returncode:
                bad.append((name, "does not compile"))
                continue
            out = subprocess.run(["diff", "-ruN", "a", "b"], cwd=d, capture_output=True, text=True).stdout
            out = "\n".join(l for l in out.splitlines() if not l.startswith(("Only in", "diff "))) + "\n"
            open(os.path.join(outdir, name + ".patch"), "w").write(out)
        finally:
            shutil.rmtree(d, ignore_errors=True)
    return bad


if __name__ == "__main__":
    bad = make(M, "/verif/mutants") + make(C, "/verif/mutants/controls")
    print("%d mutants, %d controls written" % (len(M), len(C)))
    for b in bad:
        print("FAILED:", b)
    sys.exit(1 if bad else 0)
