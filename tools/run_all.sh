#!/bin/bash
# usage: tools/run_all.sh [quick|thorough]  - runs every registered check, prints one summary line each
TIER=${1:-quick}
cd /verif
rc=0
for c in $(/venv/bin/python -c "
import json;print(' '.join(x['property_id'] for x in json.load(open('MANIFEST.json'))['checks']))"); do
  ./check $c --tier $TIER > /tmp/run_all_$c.log 2>&1; r=$?
  echo "$c exit=$r $(grep '^\[' /tmp/run_all_$c.log | tail -1)"
  grep -E '^(VIOLATION|KNOWN-FINDING|HARNESS)' /tmp/run_all_$c.log
  [ $r -ne 0 ] && rc=1
done
exit $rc
