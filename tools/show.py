#!/venv/bin/python
"""Show a replay file: statement, faults, and the evaluation table of the re-run."""
import json, sys
sys.path.insert(0, '/verif')
from sim.world import run_client
from sim.oracles.common import eval_table, V_of
p = json.load(open(sys.argv[1]))
stmt = dict(p['stmt'])
print(json.dumps({k: v for k, v in stmt.items()}, indent=None)[:1500])
print('faults', p.get('faults'))
print('expect', p.get('expect'), p.get('message'))
if p.get('engine') == 'world':
    r = run_client(p['stmt'], p['faults'])
    evs, strays = eval_table(r)
    for e in evs[:int(sys.argv[2]) if len(sys.argv) > 2 else 40]:
        print(e.idx, e.kind, e.xl, 'f=', e.fun, 'c=', e.con, 'V=', V_of(r, e)[0], 'cb', None if e.cb is None else (e.cb['fun']), 'raised' if e.raised else '')
    print('res', {k: r.res[k] for k in ('status', 'success', 'x', 'fun', 'maxcv', 'nfev', 'nit')} if r.res else r.exc)
    if r.probe and r.probe.final: print('final', r.probe.final)
