#!/bin/bash
# usage: tools/try_seeded.sh <ID> <N> [check ...]
# Confirms a sub-agent's change in its scratch worktree /tmp/wt/<ID> (tests pass with it, demo fails with it and
# passes without it), runs the given checks (default: the property's own) against it through a scratch copy, and
# stores everything under /verif/seeded/<ID>-<N>/.
ID=$1; N=$2; shift 2
CHECKS=${@:-$ID}
WT=${WT_ROOT:-/tmp/wt}/$ID
TAG=${SEED_TAG:-}
OUT=/verif/seeded/$ID-$TAG$N
mkdir -p $OUT
cd $WT || exit 2
git checkout -q -- cobyqa
git apply --check out/change$N.diff || { echo "diff does not apply"; exit 2; }
PYTHONPATH=$WT timeout 120 /venv/bin/python out/demo$N.py > /tmp/seed_clean.log 2>&1; CLEAN=$?
git apply out/change$N.diff
T=$(PYTHONPATH=$WT /venv/bin/python -m pytest -q -p no:cacheprovider -q cobyqa 2>&1 | tail -1)
PYTHONPATH=$WT timeout 120 /venv/bin/python out/demo$N.py > /tmp/seed_mut.log 2>&1; MUT=$?
git checkout -q -- cobyqa
echo "tests_with_change: $T"; echo "demo exit clean=$CLEAN with_change=$MUT"
cp out/change$N.diff $OUT/patch.diff; cp out/demo$N.py $OUT/demo.py
RES=""
cd /verif
for c in $CHECKS; do
  VERIF_NO_DETSAMPLE=1 VERIF_EVIDENCE_DIR=/tmp/verif-mutant-evidence VERIF_REPLAY_DIR=/tmp/verif-mutant-replays \
    tools/with_patch.sh $OUT/patch.diff ./check $c --tier quick > /tmp/seed_check_$c.log 2>&1; r=$?
  echo "check $c exit=$r :: $(grep -E '^  C[0-9]+\.' /tmp/seed_check_$c.log | head -3 | tr '\n' ';')"
  RES="$RES $c:$r"
done
/venv/bin/python - "$ID" "$N" "$T" "$CLEAN" "$MUT" "$RES" "$WT" "$OUT" <<'PY'
import json, sys
ID, N, T, CLEAN, MUT, RES, WT, OUT = sys.argv[1:9]
meta = json.load(open('%s/out/meta%s.json' % (WT, N)))
meta.update({"source": "independent sub-agent, scratch worktree %s" % WT,
             "confirmed": {"existing_tests_with_change": T.strip(), "demo_exit_clean_tree": int(CLEAN), "demo_exit_with_change": int(MUT)},
             "checks_run_quick": {kv.split(':')[0]: int(kv.split(':')[1]) for kv in RES.split()},
             "breaks_property": ID,
             "how_to_rerun": "git -C /repo apply %s/patch.diff; ./check %s; git -C /repo checkout -- ." % (OUT, ID)})
json.dump(meta, open('%s/meta.json' % OUT, 'w'), indent=1)
PY
