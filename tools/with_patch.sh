#!/bin/bash
# usage: tools/with_patch.sh [-R] <patch-file> <command...>
# Runs <command> with COBYQA_SRC pointing at a scratch copy of /repo with the patch applied;
# the copy lives under $TMPDIR (outside /repo and /verif) and is removed afterwards.
REV=""
if [ "$1" = "-R" ]; then REV="-R"; shift; fi
PATCH=$(realpath "$1"); shift
D=$(mktemp -d "${TMPDIR:-/tmp}/cobyqa-mut.XXXXXX")
trap 'rm -rf "$D"' EXIT
rsync -a --exclude .git --exclude __pycache__ /repo/ "$D/"
( cd "$D" && patch -p1 $REV -s < "$PATCH" ) || { echo "patch failed"; exit 3; }
COBYQA_SRC="$D" "$@"
